package main

// Replay of counterexamples against the real code (see replaygen.go for the Go test generator).

func (e *Engine) Replay(r *OblResult, scratch string) map[string]any {
	rep := map[string]any{"confirmed_on_real_code": false}
	if r.Res.Status != "sat" {
		rep["note"] = "the solver returned no model (" + r.Res.Status + "): the obligation discharged on the baseline tree and no longer does"
		return rep
	}
	model := e.extractModel(r, scratch)
	rep["model"] = model
	ok, out, why := e.replayOnRealCode(r, model, scratch)
	rep["replay_output"] = out
	if why != "" {
		rep["note"] = why
	}
	rep["confirmed_on_real_code"] = ok
	return rep
}
