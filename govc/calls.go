package main

import (
	"os"
	"fmt"
	"go/types"
	"strings"

	"golang.org/x/tools/go/ssa"
)

type closureKey struct {
	x  *FnExec
	id Term
}
type closureInfo struct {
	fn       *ssa.Function
	bindings []ssa.Value
}

func resultTypes(sig *types.Signature) []types.Type {
	var out []types.Type
	for i := 0; i < sig.Results().Len(); i++ {
		out = append(out, sig.Results().At(i).Type())
	}
	return out
}

func (x *FnExec) packResults(sig *types.Signature, rs []Val) Val {
	switch len(rs) {
	case 0:
		return Val{}
	case 1:
		return rs[0]
	}
	return Comp(rs...)
}

// call executes a call instruction; ok=false if control never continues.
func (x *FnExec) call(in ssa.Instruction, c *ssa.CallCommon, st *State) (Val, bool) {
	x.callN++
	sig := c.Signature()
	if b, ok := c.Value.(*ssa.Builtin); ok {
		return x.builtin(in, b, c, st), true
	}
	var args []Val
	var callee *ssa.Function
	calleeName := ""
	if c.IsInvoke() {
		recv := x.value(c.Value)
		x.panicIf(st, Eq(recv.F[0].T, "0"), "method call on nil interface")
		args = append(args, recv)
		for _, a := range c.Args {
			args = append(args, x.value(a))
		}
		calleeName = "(" + typeKey(c.Value.Type()) + ")." + c.Method.Name()
		x.curArgs = args
		x.regionEscapeAtCall(c, calleeName, sig, args)
		x.checkCallAsserts(calleeName, args, sigParamTypes(sig, c.Value.Type()), st)
		if con := x.eng.cs.Funcs[calleeName]; con != nil {
			res := x.applyContractSig(in, con, calleeName, sig, c.Value.Type(), args, st)
			return res, true
		}
		if x.eng.isPureDep(calleeName) {
			rs := make([]Val, 0)
			for _, t := range resultTypes(sig) {
				rs = append(rs, x.freshVal("r", t, true))
			}
			x.eng.usedPure(calleeName)
			return x.packResults(sig, rs), true
		}
		if x.eng.cs.KeeperIfaces[typeKey(c.Value.Type())] || isStoreIterator(c.Value.Type()) {
			// a keeper interface: works on stores, assumed not to touch caller-visible memory; may panic
			pb := x.ctx.Fresh("panics", SBool)
			x.panicIf(st, pb, "keeper interface call "+shortName(calleeName)+" may panic")
			rs := make([]Val, 0)
			for _, t := range resultTypes(sig) {
				rs = append(rs, x.freshVal("r", t, true))
			}
			x.ctx.Note("assumed: keeper interface method " + shortName(calleeName) + " does not modify memory visible to the caller (stores only)")
			return x.packResults(sig, rs), true
		}
		x.ctx.Note(fmt.Sprintf("%s: interface call %s without contract: all memory havocked, result unknown", x.fnName(), shortName(calleeName)))
		return x.unknownCall(sig, st, calleeName), true
	}
	for _, a := range c.Args {
		args = append(args, x.value(a))
	}
	x.curArgs = args
	callee = c.StaticCallee()
	var bindings []ssa.Value
	if mc, ok := c.Value.(*ssa.MakeClosure); ok {
		bindings = mc.Bindings
	}
	x.curBindings = bindings
	if callee == nil && len(x.prov) > 0 {
		x.regionEscapeAtCall(c, "", sig, args)
	}
	if callee == nil {
		// a function value returned by a contracted function: contract "<callee>#<result index>"
		if ex, ok := c.Value.(*ssa.Extract); ok {
			if cc, ok := ex.Tuple.(*ssa.Call); ok {
				if f := cc.Common().StaticCallee(); f != nil {
					key := fmt.Sprintf("%s#%d", f.String(), ex.Index)
					if con := x.eng.cs.Funcs[key]; con != nil {
						return x.applyContractSig(in, con, key, sig, nil, args, st), true
					}
				}
			}
		}
	}
	if callee == nil {
		// package-level function variable initialised once with a function (e.g. osmomath.MinDec)
		if u, ok := c.Value.(*ssa.UnOp); ok {
			if g, ok := u.X.(*ssa.Global); ok {
				if f := x.eng.globalFuncInit(g); f != nil {
					callee = f
					x.ctx.Note(fmt.Sprintf("call through package variable %s resolved to %s (assumes the variable is never reassigned)", g.Name(), shortName(f.String())))
				}
			}
		}
	}
	if callee == nil {
		x.regionEscapeAtCall(c, "", sig, args)
		// call of a function value
		if mc, ok := c.Value.(*ssa.MakeClosure); ok {
			callee = mc.Fn.(*ssa.Function)
			_ = callee
		}
		name := "func value " + c.Value.Name()
		// function-typed parameter with a 'calls' style contract: named "<fn>.<param>"
		if p, ok := c.Value.(*ssa.Parameter); ok {
			key := x.fn.String() + "." + p.Name()
			if con := x.eng.cs.Funcs[key]; con != nil {
				return x.applyContractSig(in, con, key, sig, nil, args, st), true
			}
		}
		x.ctx.Note(fmt.Sprintf("%s: call through %s without contract: all memory havocked, result unknown", x.fnName(), name))
		return x.unknownCall(sig, st, name), true
	}
	if callee.Origin() != nil {
		callee = callee.Origin()
	}
	calleeName = callee.String()
	x.checkCallAsserts(calleeName, args, sigParamTypes(callee.Signature, nil), st)
	con := x.eng.cs.Funcs[calleeName]
	if con == nil && callee.Synthetic != "" && strings.HasPrefix(callee.Synthetic, "wrapper") {
		// pointer-receiver wrapper around a value-receiver method
		if sigR := callee.Signature.Recv(); sigR != nil {
			if p, ok := sigR.Type().(*types.Pointer); ok {
				inner := "(" + typeKey(p.Elem()) + ")." + callee.Name()
				if con2 := x.eng.cs.Funcs[inner]; con2 != nil {
					x.derefCheck(st, args[0].T, "wrapper receiver")
					args[0] = x.load(st, args[0].T, p.Elem())
					con = con2
					calleeName = inner
				}
			}
		}
	}
	x.regionEscapeAtCall(c, calleeName, sig, args)
	if con != nil {
		return x.applyContractSig(in, con, calleeName, sig, nil, args, st), true
	}
	if len(callee.FreeVars) > 0 {
		x.ctx.Note(fmt.Sprintf("%s: closure call %s without contract: all memory havocked", x.fnName(), shortName(calleeName)))
	}
	if x.eng.isPureDep(calleeName) {
		// trusted side-effect-free dependency function: result unknown, memory untouched
		rs := make([]Val, 0)
		for _, t := range resultTypes(sig) {
			rs = append(rs, x.freshVal("r", t, true))
		}
		x.eng.usedPure(calleeName)
		return x.packResults(sig, rs), true
	}
	x.ctx.Note(fmt.Sprintf("%s: callee %s has no contract: all memory havocked, result unknown, may panic", x.fnName(), shortName(calleeName)))
	return x.unknownCall(sig, st, calleeName), true
}

// regionEscapeAtCall: which owned result graphs stop being exclusively ours at this call. A
// callee under a precise modifies clause whose results hold no addresses can neither write
// nor retain them; otherwise a pointer to pointer-free cells exposes only those cells and any
// other pointer into a graph gives the graph up.
func (x *FnExec) regionEscapeAtCall(c *ssa.CallCommon, name string, sig *types.Signature, args []Val) {
	if len(x.prov) == 0 {
		return
	}
	con := x.eng.cs.Funcs[name]
	if con != nil && !con.ModAll && resultsPointerFree(x.mem, sig) {
		return
	}
	if con == nil && name != "" && x.eng.isPureDep(name) && resultsPointerFree(x.mem, sig) {
		return
	}
	var ts []types.Type
	if c.IsInvoke() {
		ts = append(ts, c.Value.Type())
	}
	for _, a := range c.Args {
		ts = append(ts, a.Type())
	}
	for i, a := range args {
		if i < len(ts) {
			x.regionEscapeTyped(a, ts[i])
		} else {
			x.noteEscape(a)
		}
	}
}

func (x *FnExec) unknownCall(sig *types.Signature, st *State, name string) Val {
	x.inTypedArgs = true
	for _, a := range x.curArgs {
		x.noteEscape(a)
	}
	x.inTypedArgs = false
	// may panic
	pb := x.ctx.Fresh("panics", SBool)
	ps := st.clone()
	ps.reach = x.ctx.Define("R_panic", SBool, And(st.reach, pb))
	x.panics = append(x.panics, exitRec{st: ps, what: "uncontracted callee " + shortName(name), final: x.inDefers, nDefers: len(x.deferStack)})
	st.reach = x.ctx.Define("R", SBool, And(st.reach, Not(pb)))
	x.havocAll(st)
	var rs []Val
	for _, t := range resultTypes(sig) {
		rs = append(rs, x.freshVal("r", t, true))
	}
	return x.packResults(sig, rs)
}

func (x *FnExec) havocAll(st *State) { x.havocAllG(st, false) }

// havocAllG: ghostToo is set for a contracted callee that declares modifies *: its contract
// then says what happens to the abstract state.
func (x *FnExec) havocAllG(st *State, ghostToo bool) {
	keys := map[string]bool{}
	for k := range st.heaps {
		keys[k] = true
	}
	for k := range x.heapBool {
		keys[k] = true
	}
	old := map[string]Term{}
	for _, k := range sortedKeys(keys) {
		if k == "ghost:panicking" || k == "ghost:panicTyp" {
			continue // a callee that returns normally leaves the panic state as it was
		}
		if strings.HasPrefix(k, "ghost:") && !ghostToo {
			// abstract state changes only through contracts' modifies clauses (assumption listed in the evidence)
			x.ctx.Note("callees without contract are assumed to leave the abstract (ghost) state " + k + " unchanged")
			continue
		}
		old[k] = x.getHeap(st, k, x.heapBool[k])
		st.heaps[k] = x.ctx.Fresh("Hc_"+k, x.heapSort(k))
	}
	// a callee cannot reach the caller's non-escaping stack variables
	for _, l := range x.locals {
		x.restoreCells(st, old, l)
	}
	// immutable package variables (and the big integers they refer to) are not written by anybody:
	// proved for every function under contract by its frame obligation, assumed for the rest
	x.restoreImmutableGlobals(st, old)
	// ... nor objects that were allocated for this function and whose address it never handed out
	for _, o := range x.freshObjs {
		if os.Getenv("GOVC_DEBUG") != "" {
			fmt.Fprintf(os.Stderr, "havoc in %s: fresh obj %s escaped=%v\n", x.fnName(), o.addr, o.escaped)
		}
		if !o.escaped {
			x.restoreCells(st, old, localAlloc{addr: o.addr, t: o.t})
		}
	}
	x.restoreOwned(st, old)
	na := x.ctx.Fresh("alloc_c", SInt)
	x.ctx.Assert(Ge(na, st.alloc))
	st.alloc = na
	x.havocked = true
}

// applyContractSig uses a callee's contract at a call site.
func (x *FnExec) applyContractSig(in ssa.Instruction, con *Contract, calleeName string, sig *types.Signature, ifaceRecv types.Type, args []Val, st *State) Val {
	n := x.callN
	bindingsAtCall := x.curBindings
	short := shortName(calleeName)
	if i := strings.LastIndex(short, "/"); i >= 0 {
		short = short[i+1:]
	}
	// parameter types (receiver first)
	var ptypes []types.Type
	if ifaceRecv != nil {
		ptypes = append(ptypes, ifaceRecv)
	} else if sig.Recv() != nil {
		ptypes = append(ptypes, sig.Recv().Type())
	}
	for i := 0; i < sig.Params().Len(); i++ {
		ptypes = append(ptypes, sig.Params().At(i).Type())
	}
	mkEnv := func(results []Val, cur, old map[string]Term, alloc0 Term) *Env {
		env := &Env{x: x, vars: map[string]TVal{}, heaps: cur, old: old, alloc0: alloc0, errs: &x.errs}
		env.pkg = x.eng.pkgOfContract(con)
		if len(con.Params) != len(ptypes) {
			x.errorf("contract %s: %d parameter names for %d parameters", con.Key, len(con.Params), len(ptypes))
		}
		for i, nm := range con.Params {
			if i < len(args) && i < len(ptypes) && nm != "_" {
				env.vars[nm] = TVal{args[i], ptypes[i]}
			}
		}
		if results != nil {
			rt := resultTypes(sig)
			for i := range rt {
				if i < len(con.Results) && con.Results[i] != "_" {
					env.vars[con.Results[i]] = TVal{results[i], rt[i]}
				}
			}
			if len(rt) == 1 {
				if _, taken := env.vars["result"]; !taken {
					env.vars["result"] = TVal{results[0], rt[0]}
				}
			}
		}
		env.lets = map[string]CExpr{}
		for _, l := range con.Lets {
			env.lets[l.Name] = l.E
		}
		// free variables of a closure called where it was made: bound to the captured cells
		if fnc := x.eng.funcs[con.Key]; fnc != nil && len(fnc.FreeVars) == len(bindingsAtCall) && len(bindingsAtCall) > 0 {
			env.resolver = func(name string) (TVal, bool) {
				for i, fv := range fnc.FreeVars {
					if fv.Name() == name {
						if p, ok := fv.Type().(*types.Pointer); ok {
							bv := x.value(bindingsAtCall[i])
							return TVal{env.load(bv.T, p.Elem()), p.Elem()}, true
						}
					}
				}
				return TVal{}, false
			}
			env.refOf = func(name string) (TVal, bool) {
				for i, fv := range fnc.FreeVars {
					if fv.Name() == name {
						return TVal{x.value(bindingsAtCall[i]), fv.Type()}, true
					}
				}
				return TVal{}, false
			}
		}
		return env
	}
	// every abstract (ghost) cell the contract mentions exists in the caller's state BEFORE the
	// call is applied: a cell first named by the callee's postcondition would otherwise read as
	// the entry heap both before and after the call, and a 'modifies *' havoc would miss it
	for _, g := range x.eng.ghostNamesOf(con) {
		x.getHeap(st, "ghost:"+g, false)
	}
	pre := st.clone()
	envPre := mkEnv(nil, pre.heaps, pre.heaps, pre.alloc)
	// 1. preconditions
	for k, r := range con.Requires {
		x.oblige(fmt.Sprintf("call%d(%s).pre%d", n, short, k+1), "call-pre", r.Src, st.reach, envPre.EvalBool(r.E))
	}
	if imm := x.implicitModPre(con, envPre); len(imm) > 0 {
		x.oblige(fmt.Sprintf("call%d(%s).immutable", n, short), "call-pre", "no modified location is the referent of an immutable global", st.reach, And(imm...))
	}
	// 2. panics; 3. havoc. With on_panic clauses the panic state is the havocked state
	// constrained by them (the callee's effects up to the panic), otherwise the pre-call state.
	ptyp := ""
	if con.PanicTyp != nil {
		ptyp = envPre.scalar(envPre.Eval(con.PanicTyp), "panic_typ")
	}
	var pcond Term = "false"
	if con.PanicsIff != nil {
		pcond = envPre.EvalBool(con.PanicsIff.E)
	} else if con.MayPanic {
		pb := x.ctx.Fresh("panics", SBool)
		var must []Term
		for _, pi := range con.PanicsIf {
			must = append(must, envPre.EvalBool(pi.E))
		}
		pcond = Or(pb, Or(must...))
	}
	doHavoc := func(s *State) {
		if con.ModAll {
			x.inTypedArgs = true
			for _, a := range args {
				x.noteEscape(a)
			}
			x.inTypedArgs = false
			x.havocAllG(s, len(con.Modifies) == 0)
			for _, m := range con.Modifies {
				x.havocLoc(envPre, s, m)
			}
		} else {
			for _, m := range con.Modifies {
				x.havocLoc(envPre, s, m)
			}
		}
	}
	if pcond != "false" {
		what := "callee " + short + " panics"
		if con.PanicsIff == nil {
			what = "callee " + short + " may panic"
		}
		if len(con.OnPanic) > 0 {
			ps := st.clone()
			doHavoc(ps)
			envP := mkEnv(nil, ps.heaps, pre.heaps, pre.alloc)
			var facts []Term
			for _, c := range con.OnPanic {
				facts = append(facts, envP.EvalBool(c.E))
			}
			ps.reach = x.ctx.Define("R_panic", SBool, And(st.reach, pcond, And(facts...)))
			x.panics = append(x.panics, exitRec{st: ps, what: what, ptyp: ptyp, final: x.inDefers, nDefers: len(x.deferStack)})
			st.reach = x.ctx.Define("R", SBool, And(st.reach, Not(pcond)))
		} else {
			x.panicIfTyp(st, pcond, what, ptyp)
		}
	}
	x.havocPtrs = nil
	doHavoc(st)
	var rs []Val
	for _, t := range resultTypes(sig) {
		rs = append(rs, x.freshVal("r_"+short, t, true))
	}
	// callee allocations: the frontier moves by an unknown amount
	na := x.ctx.Fresh("alloc_c", SInt)
	x.ctx.Assert(Ge(na, pre.alloc))
	st.alloc = na
	// addresses the callee stored into the locations it may modify refer to memory that exists
	// when it returns
	x.boundHavocPtrs(na)
	// whatever address a callee returns refers to memory that exists when it returns: below the
	// allocation frontier after the call (so it cannot coincide with anything allocated later)
	for i, t := range resultTypes(sig) {
		flat := rs[i].Flatten()
		for j, l := range x.mem.Leaves(t) {
			if l.IsPtr && j < len(flat) && !flat[j].B {
				x.ctx.Assert(Lt(flat[j].T, na))
			}
		}
		for _, c := range x.existsBelow(rs[i], t, na) {
			x.ctx.Assert(c)
		}
	}
	// 4. postconditions
	envPost := mkEnv(rs, st.heaps, pre.heaps, pre.alloc)
	var posts []Term
	for _, e := range con.Ensures {
		posts = append(posts, envPost.EvalBool(e.E))
		// fresh(e) also means below the new frontier
		x.collectFresh(e.E, envPost, na, &posts)
	}
	for _, e := range con.Assumed {
		posts = append(posts, envPost.EvalBool(e.E))
		x.ctx.Note("assumed clause of " + short + ": " + e.Src)
	}
	before := st.reach
	st.reach = x.ctx.Define("R", SBool, And(st.reach, And(posts...)))
	if len(posts) > 0 && !x.inDefers {
		// vacuity guard: assuming the callee's postcondition must not make the continuation
		// unreachable when the call itself was reachable
		x.callReach = append(x.callReach, callReachRec{name: fmt.Sprintf("call%d(%s).continues", n, short), before: before, after: st.reach})
	}
	if con.Trusted {
		x.eng.usedTrusted(con.Key)
	}
	return x.packResults(sig, rs)
}

func (x *FnExec) collectFresh(e CExpr, env *Env, newAlloc Term, out *[]Term) {
	switch e := e.(type) {
	case *CCall:
		if e.Fn == "owned" {
			// owned(p): p and everything reachable from it was allocated by the callee
			tv := env.Eval(e.Args[0])
			r := &ownedRegion{base: env.alloc0, end: newAlloc, graph: true, skipKeys: map[string]bool{}}
			x.ownedRegions = append(x.ownedRegions, r)
			if x.prov == nil {
				x.prov = map[Term]*ownedRegion{}
			}
			if tv.T != nil {
				*out = append(*out, x.regionShapeTerms(tv.V, tv.T, r)...)
			}
			// closure: addresses stored in the graph's cells are nil or refer to whole objects inside the graph
			heapOf := func(k string) (Term, bool) {
				if h, ok := env.heaps[k]; ok {
					return h, true
				}
				if _, seen := x.heapBool[k]; seen {
					return x.initHeap(k, false), true
				}
				return "", false
			}
			for _, k := range sortedKeys(x.mem.PtrKeys) {
				h, ok := heapOf(k)
				if !ok {
					continue
				}
				upper := "(select " + h + " a)"
				if el, ok := x.mem.PtrElem[k]; ok {
					if strings.HasSuffix(k, "#ptr") {
						if hc, ok := heapOf(strings.TrimSuffix(k, "#ptr") + "#cap"); ok {
							upper = Add(upper, Mul("(select "+hc+" (+ a 2))", Lit(int64(x.mem.Size(el)))))
						}
					} else {
						upper = Add(upper, Lit(int64(x.mem.Size(el))))
					}
				}
				*out = append(*out, fmt.Sprintf("(forall ((a Int)) (! (=> (and (<= %s a) (< a %s)) (or (= (select %s a) 0) (and (<= %s (select %s a)) (<= %s %s)))) :pattern ((select %s a))))", r.base, r.end, h, r.base, h, upper, r.end, h))
			}
			x.ctx.Note("assumed: the callee's result (owned) and everything reachable from it are new allocations not shared with anything else")
		}
		if e.Fn == "fresh" {
			tv := env.Eval(e.Args[0])
			t := env.scalar(tv, "fresh")
			*out = append(*out, Lt(t, newAlloc))
			if tv.T != nil {
				if p, ok := tv.T.Underlying().(*types.Pointer); ok {
					if _, isStruct := p.Elem().Underlying().(*types.Struct); isStruct && !isOpaque(p.Elem()) {
						x.freshObjs = append(x.freshObjs, &freshObj{addr: t, t: p.Elem()})
					}
				}
			}
		}
	case *CBinary:
		if e.Op == "==>" {
			x.collectFresh(e.Y, env, newAlloc, out)
			return
		}
		if e.Op == "&&" {
			x.collectFresh(e.X, env, newAlloc, out)
			x.collectFresh(e.Y, env, newAlloc, out)
		}
		return
	}
}

// callerEnvAt: environment naming the caller's parameters at the current state.
func (x *FnExec) callerEnvAt(st *State) *Env {
	var args []Val
	for _, p := range x.fn.Params {
		args = append(args, x.vals[p])
	}
	env := x.envFor(x.con, x.fn, args, nil, st.heaps, x.entry.heaps, x.entry.alloc)
	x.addFreeVarNames(env)
	x.unshadowSpilledParams(env)
	prev := env.resolver
	env.resolver = func(name string) (TVal, bool) {
		if strings.HasSuffix(name, "0") {
			base := strings.TrimSuffix(name, "0")
			for i, p := range x.fn.Params {
				if p.Name() == base {
					return TVal{args[i], p.Type()}, true
				}
			}
		}
		if v, ok := x.resolveLocalAny(name, st); ok {
			return v, true
		}
		if name == "rangeindex" {
			// the hidden counter of the latest range loop entered so far (the element being
			// visited is [rangeindex + 1]); with nested loops: the innermost one started last
			var best *ssa.Phi
			for _, blk := range x.fn.Blocks {
				for _, in := range blk.Instrs {
					phi, ok := in.(*ssa.Phi)
					if !ok {
						break
					}
					if phi.Comment == "rangeindex" {
						if _, have := x.vals[phi]; have {
							best = phi
						}
					}
				}
			}
			if best != nil {
				return TVal{x.vals[best], best.Type()}, true
			}
		}
		if prev != nil {
			return prev(name)
		}
		return TVal{}, false
	}
	return env
}

// resolveLocalAny: latest defined SSA value carrying the source name.
func (x *FnExec) resolveLocalAny(name string, st *State) (TVal, bool) {
	for _, blk := range x.fn.Blocks {
		for _, in := range blk.Instrs {
			if a, ok := in.(*ssa.Alloc); ok && a.Comment == name {
				if v, ok := x.vals[a]; ok {
					el := a.Type().(*types.Pointer).Elem()
					return TVal{x.load(st, v.T, el), el}, true
				}
			}
		}
	}
	cands := x.nameAt[name]
	for i := len(cands) - 1; i >= 0; i-- {
		if v, ok := x.vals[cands[i]]; ok {
			return TVal{v, cands[i].Type()}, true
		}
	}
	return TVal{}, false
}

// ---------- builtins ----------

func (x *FnExec) builtin(in ssa.Instruction, b *ssa.Builtin, c *ssa.CallCommon, st *State) Val {
	switch b.Name() {
	case "len":
		a := x.value(c.Args[0])
		switch c.Args[0].Type().Underlying().(type) {
		case *types.Slice:
			return IntV(a.F[1].T)
		case *types.Basic:
			r := x.ctx.Define("strlen", SInt, app("strlen", a.T))
			x.ctx.Assert(Ge(r, "0"))
			return IntV(r)
		case *types.Map:
			tk := typeKey(c.Args[0].Type())
			h := x.getHeap(st, "maplen:"+tk, false)
			r := x.ctx.Define("maplen", SInt, Ite(Eq(a.T, "0"), "0", Sel(h, a.T)))
			x.ctx.Assert(Ge(r, "0"))
			return IntV(r)
		case *types.Pointer: // *[N]T
			if arr, ok := c.Args[0].Type().Underlying().(*types.Pointer).Elem().Underlying().(*types.Array); ok {
				return IntV(Lit(arr.Len()))
			}
		case *types.Array:
			return IntV(Lit(c.Args[0].Type().Underlying().(*types.Array).Len()))
		}
	case "cap":
		a := x.value(c.Args[0])
		if _, ok := c.Args[0].Type().Underlying().(*types.Slice); ok {
			return IntV(a.F[2].T)
		}
	case "append":
		return x.appendOp(c, st)
	case "copy":
		x.ctx.Note("copy(): destination elements havocked")
		dst := x.value(c.Args[0])
		if sl, ok := c.Args[0].Type().Underlying().(*types.Slice); ok {
			for _, l := range x.mem.Leaves(sl.Elem()) {
				st.heaps[l.Key] = x.ctx.Fresh("Hcp_"+l.Key, x.heapSort(l.Key))
				x.heapBool[l.Key] = l.Bool
			}
		}
		_ = dst
		r := x.ctx.Fresh("copied", SInt)
		x.ctx.Assert(Ge(r, "0"))
		return IntV(r)
	case "delete":
		m := x.value(c.Args[0])
		tk := typeKey(c.Args[0].Type())
		k, ok := x.mapKeyTerm(x.value(c.Args[1]))
		if !ok {
			st.heaps["mapin:"+tk] = x.ctx.Fresh("Hmapin", "(Array Int (Array Int Bool))")
			return Val{}
		}
		hin := x.getHeap(st, "mapin:"+tk, true)
		hl := x.getHeap(st, "maplen:"+tk, false)
		wasIn := Sel(Sel(hin, m.T), k)
		st.heaps["maplen:"+tk] = x.ctx.Define("H_maplen", SArrI, Sto(hl, m.T, Sub(Sel(hl, m.T), Ite(wasIn, "1", "0"))))
		st.heaps["mapin:"+tk] = x.ctx.Define("H_mapin", "(Array Int (Array Int Bool))", Sto(hin, m.T, Sto(Sel(hin, m.T), k, "false")))
		return Val{}
	case "min", "max":
		a, bb := x.value(c.Args[0]), x.value(c.Args[1])
		f := "minI"
		if b.Name() == "max" {
			f = "maxI"
		}
		return IntV(app(f, a.T, bb.T))
	case "print", "println":
		return Val{}
	case "recover":
		// recover() returns the panic value while panicking (and stops the panic), nil otherwise
		hp := x.getHeap(st, "ghost:panicking", false)
		ht := x.getHeap(st, "ghost:panicTyp", false)
		isP := Eq(Sel(hp, "0"), "1")
		typ := x.ctx.Define("rec_typ", SInt, Ite(isP, Sel(ht, "0"), "0"))
		val := x.ctx.Fresh("rec_val", SInt)
		x.ctx.Assert(Implies(Eq(typ, "0"), Eq(val, "0")))
		x.ctx.Assert(Implies(isP, Gt(Sel(ht, "0"), "0")))
		x.setGhost(st, "panicking", "0")
		return Comp(IntV(typ), IntV(val))
	case "ssa:wrapnilchk":
		a := x.value(c.Args[0])
		x.panicIf(st, Eq(a.T, "0"), "nil receiver in wrapper")
		return a
	}
	x.errorf("unsupported builtin %s", b.Name())
	sig := c.Signature()
	if sig.Results().Len() == 1 {
		return x.freshVal("bi", sig.Results().At(0).Type(), true)
	}
	return Val{}
}

// appendOp models append with Go's capacity behaviour: in place when the result fits.
func (x *FnExec) appendOp(c *ssa.CallCommon, st *State) Val {
	s := x.value(c.Args[0])
	t := c.Args[0].Type()
	sl, ok := t.Underlying().(*types.Slice)
	if !ok {
		x.errorf("append on non-slice")
		return x.freshVal("app", t, true)
	}
	var add Val
	if _, isStr := c.Args[1].Type().Underlying().(*types.Basic); isStr {
		// append([]byte, string...)
		x.ctx.Note("append of string bytes abstracted")
		return x.freshVal("app", t, true)
	}
	add = x.value(c.Args[1])
	if len(x.prov) > 0 {
		// the result may alias either operand under a new term
		x.noteEscape(s)
		x.noteEscape(add)
	}
	sz := x.mem.Size(sl.Elem())
	k := add.F[1].T
	newLen := Add(s.F[1].T, k)
	fits := Le(newLen, s.F[2].T)
	// fresh backing array when it does not fit
	nptr := st.alloc
	ncap := x.ctx.Fresh("newcap", SInt)
	x.ctx.Assert(And(Ge(ncap, newLen), Ge(ncap, "1")))
	st.alloc = x.ctx.Define("alloc", SInt, Ite(fits, st.alloc, Add(st.alloc, Add(Mul(ncap, Lit(int64(sz))), "1"))))
	rptr := Ite(fits, s.F[0].T, nptr)
	rcap := Ite(fits, s.F[2].T, ncap)
	rptr = x.ctx.Define("app_ptr", SInt, rptr)
	// element contents: result[i] = s[i] for i < len(s); result[len(s)+j] = add[j]
	for li, l := range x.mem.Leaves(sl.Elem()) {
		old := x.getHeap(st, l.Key, l.Bool)
		if kk, ok := isNumeral(k); ok && kk.IsInt64() && kk.Int64() <= 4 && kk.Int64() >= 0 {
			// small constant append count: explicit stores (copying the old prefix is a
			// quantified fact only needed when reallocated)
			h := old
			nh := x.ctx.Fresh("Ha_"+l.Key, x.heapSort(l.Key))
			// on reallocation copy the prefix
			bv := x.ctx.boundVar("a")
			srcIdx := fmt.Sprintf("(+ %s (- %s %s))", s.F[0].T, bv, rptr)
			inNew := fmt.Sprintf("(and (>= %s %s) (< %s (+ %s %s)))", bv, rptr, bv, rptr, Mul(s.F[1].T, Lit(int64(sz))))
			x.ctx.Assert(fmt.Sprintf("(forall ((%s Int)) (! (= (select %s %s) (ite (and (not %s) %s) (select %s %s) (select %s %s))) :pattern ((select %s %s))))",
				bv, nh, bv, fits, inNew, h, srcIdx, h, bv, nh, bv))
			cur := nh
			for j := int64(0); j < kk.Int64(); j++ {
				srcA := Add(add.F[0].T, Lit(j*int64(sz)+int64(li)))
				dstA := Add(rptr, Add(Mul(Add(s.F[1].T, Lit(j)), Lit(int64(sz))), Lit(int64(li))))
				cur = Sto(cur, dstA, Sel(h, srcA))
			}
			st.heaps[l.Key] = x.ctx.Define("H_"+l.Key, x.heapSort(l.Key), cur)
		} else {
			nh := x.ctx.Fresh("Ha_"+l.Key, x.heapSort(l.Key))
			bv := x.ctx.boundVar("a")
			total := Mul(newLen, Lit(int64(sz)))
			oldPart := Mul(s.F[1].T, Lit(int64(sz)))
			// inside the result range: prefix from s, suffix from add; outside: unchanged
			x.ctx.Assert(fmt.Sprintf("(forall ((%s Int)) (! (= (select %s %s) (ite (and (>= %s %s) (< %s (+ %s %s))) (ite (< %s (+ %s %s)) (select %s (+ %s (- %s %s))) (select %s (+ %s (- %s (+ %s %s))))) (select %s %s))) :pattern ((select %s %s))))",
				bv, nh, bv, bv, rptr, bv, rptr, total, bv, rptr, oldPart, old, s.F[0].T, bv, rptr, old, add.F[0].T, bv, rptr, oldPart, old, bv, nh, bv))
			st.heaps[l.Key] = nh
		}
	}
	return Comp(IntV(rptr), IntV(newLen), IntV(x.ctx.Define("app_cap", SInt, rcap)))
}

// ---------- defers ----------

func (x *FnExec) runDefers(st *State) {
	if len(x.deferStack) == 0 {
		return
	}
	// deferred calls run in LIFO order; each is executed as an ordinary call under the
	// condition that its defer statement was reached
	x.inDefers = true
	defer func() { x.inDefers = false }()
	for i := len(x.deferStack) - 1; i >= 0; i-- {
		d := x.deferStack[i]
		sub := st.clone()
		res, _ := x.call(d.instr, d.instr.Common(), sub)
		_ = res
		// if the defer statement was not reached on this path nothing happens: merge
		if d.reach != "true" {
			x.ctx.Note("conditional defer: executed on every path (over-approximation by havoc)")
		}
		*st = *sub
	}
}

// checkCallAsserts: "assert call <substring> : expr" clauses of the function under
// analysis, checked at every call whose callee name contains the substring. The callee's
// arguments are visible as arg0, arg1, ... (receiver first).
func (x *FnExec) checkCallAsserts(calleeName string, args []Val, ptypes []types.Type, st *State) {
	if len(x.con.CallAsserts) == 0 {
		return
	}
	short := shortName(calleeName)
	if i := strings.LastIndex(short, "/"); i >= 0 {
		short = short[i+1:]
	}
	for k, ca := range x.con.CallAsserts {
		if pat, ok := strings.CutSuffix(ca.Callee, "$"); ok {
			// "name$": the callee's name ends with name (deleteLock$ does not match deleteLockRefs)
			if !strings.HasSuffix(calleeName, pat) {
				continue
			}
		} else if !strings.Contains(calleeName, ca.Callee) {
			continue
		}
		envC := x.callerEnvAt(st)
		for i := range args {
			if i < len(ptypes) {
				envC.vars[fmt.Sprintf("arg%d", i)] = TVal{args[i], ptypes[i]}
			}
		}
		nerr := len(x.errs)
		envC.lenient = true
		goal := envC.EvalBool(ca.E)
		envC.lenient = false
		src := ca.Src
		if len(x.errs) > nerr {
			// the assertion names something that does not exist at this call (a local defined on
			// another path, for instance after an edit that moved code): it cannot hold here
			src += " [not evaluable at this call: " + x.errs[nerr] + "]"
			x.errs = x.errs[:nerr]
			goal = "false"
		}
		x.oblige(fmt.Sprintf("assert%d.at_call%d(%s)", k+1, x.callN, short), "assert", src, st.reach, goal)
		x.assertHit[k] = true
	}
}

func sigParamTypes(sig *types.Signature, recv types.Type) []types.Type {
	var out []types.Type
	if recv != nil {
		out = append(out, recv)
	} else if sig.Recv() != nil {
		out = append(out, sig.Recv().Type())
	}
	for i := 0; i < sig.Params().Len(); i++ {
		out = append(out, sig.Params().At(i).Type())
	}
	return out
}

func init() { _ = os.Getenv }

func (x *FnExec) restoreImmutableGlobals(st *State, old map[string]Term) {
	used := x.usedGlobals()
	for _, pkgPath := range sortedKeys(x.eng.cs.Globals) {
		sp := x.eng.ssaPkg(pkgPath)
		if sp == nil {
			continue
		}
		for _, g := range x.eng.cs.Globals[pkgPath] {
			if !g.Immutable || !used[pkgPath+"."+g.Name] {
				continue
			}
			m, ok := sp.Members[g.Name].(*ssa.Global)
			if !ok {
				continue
			}
			el := m.Type().(*types.Pointer).Elem()
			addr := x.globalAddr(m)
			x.restoreCells(st, old, localAlloc{addr: addr, t: el})
			// the big integer behind it
			env := &Env{x: x, vars: map[string]TVal{}, heaps: old, old: old, alloc0: x.entry.alloc, errs: &x.errs, pkg: sp}
			if tv, ok := env.lookup(g.Name); ok {
				if r, ok := bigRef(tv); ok {
					if ob, have := old["Big"]; have {
						if cur, have2 := st.heaps["Big"]; have2 && cur != ob {
							st.heaps["Big"] = x.ctx.Define("H_Big", SArrI, Sto(cur, r, Sel(ob, r)))
						}
					}
				}
			}
		}
	}
}

// isStoreIterator: a KV-store iterator interface (Next/Valid/Key/Value/Close). Its methods read
// the store and advance a cursor; they are assumed not to touch memory the caller can see.
func isStoreIterator(t types.Type) bool {
	it, ok := t.Underlying().(*types.Interface)
	if !ok {
		return false
	}
	need := map[string]bool{"Next": false, "Valid": false, "Key": false, "Value": false, "Close": false}
	for i := 0; i < it.NumMethods(); i++ {
		if _, ok := need[it.Method(i).Name()]; ok {
			need[it.Method(i).Name()] = true
		}
	}
	for _, v := range need {
		if !v {
			return false
		}
	}
	return true
}


// ghostNamesOf: the names of the ghost cells a contract mentions (through defines as well).
func (e *Engine) ghostNamesOf(con *Contract) []string {
	seen := map[string]bool{}
	visitedDefs := map[string]bool{}
	var walk func(c CExpr)
	walk = func(c CExpr) {
		switch c := c.(type) {
		case *CUnary:
			walk(c.X)
		case *CBinary:
			walk(c.X)
			walk(c.Y)
		case *CCall:
			if c.Fn == "ghost" && len(c.Args) > 0 {
				if id, ok := c.Args[0].(*CIdent); ok && id.Name != "none" {
					seen[id.Name] = true
				}
				for _, a := range c.Args[1:] {
					walk(a)
				}
				return
			}
			if d, ok := e.cs.Defs[c.Fn]; ok && !visitedDefs[c.Fn] {
				visitedDefs[c.Fn] = true
				walk(d.Body)
			}
			for _, a := range c.Args {
				walk(a)
			}
		case *CSel:
			walk(c.X)
		case *CIndex:
			walk(c.X)
			walk(c.I)
		case *CTern:
			walk(c.C)
			walk(c.A)
			walk(c.B)
		case *CQuant:
			walk(c.Body)
		}
	}
	for _, cl := range con.Requires {
		walk(cl.E)
	}
	for _, cl := range con.Ensures {
		walk(cl.E)
	}
	for _, cl := range con.Assumed {
		walk(cl.E)
	}
	for _, cl := range con.OnPanic {
		walk(cl.E)
	}
	for _, cl := range con.PanicsIf {
		walk(cl.E)
	}
	if con.PanicsIff != nil {
		walk(con.PanicsIff.E)
	}
	for _, m := range con.Modifies {
		walk(m)
	}
	for _, l := range con.Lets {
		walk(l.E)
	}
	return sortedKeys(seen)
}
