package main

// SMT-LIB2 text construction and solver racing.

import (
	"bytes"
	"context"
	"fmt"
	"math/big"
	"os"
	"os/exec"
	"path/filepath"
	"sort"
	"strings"
	"sync/atomic"
	"time"
)

type Term = string

const (
	SInt  = "Int"
	SBool = "Bool"
	SArrI = "(Array Int Int)"
	SArrB = "(Array Int Bool)"
)

// Ctx accumulates declarations and global (definitional, conservative) assertions.
type Ctx struct {
	lines []string
	n     int
	memo  map[string]Term
	notes map[string]bool // abstraction notes collected while generating VCs
	pow10Max int
	inQuant  int
}

func NewCtx() *Ctx { return &Ctx{memo: map[string]Term{}, notes: map[string]bool{}} }

func (c *Ctx) Note(s string) { c.notes[s] = true }

func sanitize(s string) string {
	var b strings.Builder
	for _, r := range s {
		if (r >= 'a' && r <= 'z') || (r >= 'A' && r <= 'Z') || (r >= '0' && r <= '9') || r == '_' {
			b.WriteRune(r)
		} else {
			b.WriteByte('_')
		}
	}
	if b.Len() > 40 {
		return b.String()[:40]
	}
	return b.String()
}

func (c *Ctx) Fresh(prefix, sort string) Term {
	c.n++
	name := fmt.Sprintf("%s!%d", sanitize(prefix), c.n)
	c.lines = append(c.lines, fmt.Sprintf("(declare-const %s %s)", name, sort))
	return name
}

// Declare a named constant once.
func (c *Ctx) Named(name, sort string) Term {
	if t, ok := c.memo["named:"+name]; ok {
		return t
	}
	n := sanitize(name)
	// avoid collisions after sanitising
	c.n++
	n = fmt.Sprintf("%s!%d", n, c.n)
	c.lines = append(c.lines, fmt.Sprintf("(declare-const %s %s)", n, sort))
	c.memo["named:"+name] = n
	return n
}

func (c *Ctx) Assert(t Term) {
	if t == "true" {
		return
	}
	c.lines = append(c.lines, "(assert "+t+")")
}

// Define introduces a fresh constant equal to t (keeps terms small).
func (c *Ctx) Define(prefix, sort string, t Term) Term {
	if isAtom(t) {
		return t
	}
	v := c.Fresh(prefix, sort)
	c.lines = append(c.lines, fmt.Sprintf("(assert (= %s %s))", v, t))
	return v
}

func (c *Ctx) Mark() int { return len(c.lines) }

func isAtom(t Term) bool {
	return !strings.ContainsAny(t, " (")
}

// ---- term helpers ----

func Lit(i int64) Term {
	if i < 0 {
		return fmt.Sprintf("(- %d)", -i)
	}
	return fmt.Sprintf("%d", i)
}

func LitBig(b *big.Int) Term {
	if b.Sign() < 0 {
		return "(- " + new(big.Int).Neg(b).String() + ")"
	}
	return b.String()
}

func Pow2(k int) Term  { return new(big.Int).Lsh(big.NewInt(1), uint(k)).String() }
func Pow10(k int) Term { return new(big.Int).Exp(big.NewInt(10), big.NewInt(int64(k)), nil).String() }

func app(op string, args ...Term) Term {
	return "(" + op + " " + strings.Join(args, " ") + ")"
}

func And(ts ...Term) Term {
	var out []Term
	for _, t := range ts {
		if t == "true" {
			continue
		}
		if t == "false" {
			return "false"
		}
		out = append(out, t)
	}
	switch len(out) {
	case 0:
		return "true"
	case 1:
		return out[0]
	}
	return app("and", out...)
}

func Or(ts ...Term) Term {
	var out []Term
	for _, t := range ts {
		if t == "false" {
			continue
		}
		if t == "true" {
			return "true"
		}
		out = append(out, t)
	}
	switch len(out) {
	case 0:
		return "false"
	case 1:
		return out[0]
	}
	return app("or", out...)
}

func Not(t Term) Term {
	switch t {
	case "true":
		return "false"
	case "false":
		return "true"
	}
	if strings.HasPrefix(t, "(not ") {
		return t[5 : len(t)-1]
	}
	return app("not", t)
}

func Implies(a, b Term) Term {
	if a == "true" {
		return b
	}
	if a == "false" || b == "true" {
		return "true"
	}
	return app("=>", a, b)
}
func Eq(a, b Term) Term {
	if a == b {
		return "true"
	}
	return app("=", a, b)
}
func Ite(c, a, b Term) Term {
	if c == "true" {
		return a
	}
	if c == "false" {
		return b
	}
	if a == b {
		return a
	}
	return app("ite", c, a, b)
}
func fold2(a, b Term, f func(x, y *big.Int) *big.Int) (Term, bool) {
	x, ok1 := isNumeral(a)
	y, ok2 := isNumeral(b)
	if ok1 && ok2 {
		return LitBig(f(x, y)), true
	}
	return "", false
}
func Add(a, b Term) Term {
	if a == "0" {
		return b
	}
	if b == "0" {
		return a
	}
	if t, ok := fold2(a, b, func(x, y *big.Int) *big.Int { return new(big.Int).Add(x, y) }); ok {
		return t
	}
	return app("+", a, b)
}
func Sub(a, b Term) Term {
	if b == "0" {
		return a
	}
	if t, ok := fold2(a, b, func(x, y *big.Int) *big.Int { return new(big.Int).Sub(x, y) }); ok {
		return t
	}
	return app("-", a, b)
}
func Mul(a, b Term) Term {
	if a == "1" {
		return b
	}
	if b == "1" {
		return a
	}
	if t, ok := fold2(a, b, func(x, y *big.Int) *big.Int { return new(big.Int).Mul(x, y) }); ok {
		return t
	}
	return app("*", a, b)
}
func Neg(a Term) Term {
	if x, ok := isNumeral(a); ok {
		return LitBig(new(big.Int).Neg(x))
	}
	return app("-", a)
}
func Lt(a, b Term) Term   { return app("<", a, b) }
func Le(a, b Term) Term   { return app("<=", a, b) }
func Gt(a, b Term) Term   { return app(">", a, b) }
func Ge(a, b Term) Term   { return app(">=", a, b) }
func Sel(h, a Term) Term  { return app("select", h, a) }
func Sto(h, a, v Term) Term { return app("store", h, a, v) }
func Abs(a Term) Term     { return app("absI", a) }

const prelude = `(set-option :produce-models true)
(set-logic ALL)
(define-fun absI ((x Int)) Int (ite (>= x 0) x (- x)))
(define-fun sgn ((x Int)) Int (ite (> x 0) 1 (ite (< x 0) (- 1) 0)))
(define-fun minI ((x Int) (y Int)) Int (ite (<= x y) x y))
(define-fun maxI ((x Int) (y Int)) Int (ite (<= x y) y x))
(define-fun wrap64 ((x Int)) Int (- (mod (+ x 9223372036854775808) 18446744073709551616) 9223372036854775808))
(define-fun wrapu64 ((x Int)) Int (mod x 18446744073709551616))
(define-fun wrap32 ((x Int)) Int (- (mod (+ x 2147483648) 4294967296) 2147483648))
(define-fun wrapu32 ((x Int)) Int (mod x 4294967296))
(define-fun wrapu16 ((x Int)) Int (mod x 65536))
(define-fun wrap16 ((x Int)) Int (- (mod (+ x 32768) 65536) 32768))
(define-fun wrapu8 ((x Int)) Int (mod x 256))
(define-fun wrap8 ((x Int)) Int (- (mod (+ x 128) 256) 128))
(declare-fun pow10 (Int) Int)
(declare-fun strcat (Int Int) Int)
(declare-fun bitlenf (Int) Int)
(declare-fun tdivf (Int Int) Int)
(declare-fun tremf (Int Int) Int)
(declare-fun rhef (Int Int) Int)
(declare-fun cdivf (Int Int) Int)
(declare-fun fdivf (Int Int) Int)
(declare-fun mulf (Int Int) Int)
(declare-fun strlen (Int) Int)
(declare-fun uf1 (Int Int) Int)
(declare-fun uf2 (Int Int Int) Int)
(declare-fun uf3 (Int Int Int Int) Int)
`

// ---- division helpers (witness encoding for symbolic divisors) ----

func isNumeral(t Term) (*big.Int, bool) {
	s := t
	neg := false
	if strings.HasPrefix(s, "(- ") && strings.HasSuffix(s, ")") {
		s = s[3 : len(s)-1]
		neg = true
	}
	if s == "" {
		return nil, false
	}
	for _, r := range s {
		if r < '0' || r > '9' {
			return nil, false
		}
	}
	b, ok := new(big.Int).SetString(s, 10)
	if !ok {
		return nil, false
	}
	if neg {
		b.Neg(b)
	}
	return b, true
}

// TDivRem returns (q, r) terms for truncated division n / m (Go semantics),
// meaningful when m != 0.
func (c *Ctx) TDivRem(n, m Term) (Term, Term) {
	key := "tdiv:" + n + "|" + m
	if q, ok := c.memo[key]; ok {
		return q, c.memo[key+"#r"]
	}
	var q, r Term
	if mv, ok := isNumeral(m); ok && mv.Sign() != 0 {
		am := new(big.Int).Abs(mv).String()
		// truncated: sign(n)*sign(m) * (|n| div |m|)
		qa := app("div", Abs(n), am)
		ra := app("mod", Abs(n), am)
		if mv.Sign() > 0 {
			q = Ite(Ge(n, "0"), qa, Neg(qa))
		} else {
			q = Ite(Ge(n, "0"), Neg(qa), qa)
		}
		r = Ite(Ge(n, "0"), ra, Neg(ra))
		if ufDiv {
			// the quotient is ALSO the application tdivf(n, m): equal arguments then give equal
			// quotients by congruence alone, whichever encoding the other occurrence used
			qd, rd := q, r
			q = c.Define("q", SInt, app("tdivf", n, m))
			r = c.Define("r", SInt, app("tremf", n, m))
			c.Assert(And(Eq(q, qd), Eq(r, rd)))
		} else {
			q = c.Define("q", SInt, q)
			r = c.Define("r", SInt, r)
		}
	} else {
		// uninterpreted function applications (so that equal arguments give equal results by
		// congruence) constrained by the defining property of truncated division
		q = c.Define("q", SInt, app("tdivf", n, m))
		r = c.Define("r", SInt, app("tremf", n, m))
		// m != 0 => n = q*m + r, |r| < |m|, r has the sign of n (or is 0)
		c.Assert(Implies(Not(Eq(m, "0")), And(
			Eq(n, Add(Mul(q, m), r)),
			Lt(Abs(r), Abs(m)),
			Implies(Ge(n, "0"), Ge(r, "0")),
			Implies(Le(n, "0"), Le(r, "0")),
		)))
		// sign and magnitude of a truncated quotient (true of truncated division; spares the
		// solver the nonlinear step from n = q*m + r)
		c.Assert(Implies(Not(Eq(m, "0")), And(
			Implies(Or(And(Ge(n, "0"), Gt(m, "0")), And(Le(n, "0"), Lt(m, "0"))), Ge(q, "0")),
			Implies(Or(And(Ge(n, "0"), Lt(m, "0")), And(Le(n, "0"), Gt(m, "0"))), Le(q, "0")),
			Le(Abs(q), Abs(n)),
		)))
		// bridge to the numeral encoding: a divisor that is only *known to equal* one of the
		// scaling constants (e.g. the value of OneDec()) must give the same quotient as the
		// literal constant does (true of truncated division; saves the solver a nonlinear
		// uniqueness argument)
		for _, k := range []string{"1000000000000000000", "1000000000000000000000000000000000000"} {
			qa := app("div", Abs(n), k)
			ra := app("mod", Abs(n), k)
			c.Assert(Implies(Eq(m, k), And(
				Eq(q, Ite(Ge(n, "0"), qa, Neg(qa))),
				Eq(r, Ite(Ge(n, "0"), ra, Neg(ra))))))
		}
	}
	c.memo[key] = q
	c.memo[key+"#r"] = r
	return q, r
}

func (c *Ctx) TDiv(n, m Term) Term { q, _ := c.TDivRem(n, m); return q }
func (c *Ctx) TRem(n, m Term) Term { _, r := c.TDivRem(n, m); return r }

// quotient sign: n/m positive (and inexact) means ceiling = trunc+1
func (c *Ctx) CDiv(n, m Term) Term {
	q, r := c.TDivRem(n, m)
	pos := Or(And(Gt(r, "0"), Gt(m, "0")), And(Lt(r, "0"), Lt(m, "0")))
	return c.ufNamed("cdivf", n, m, Ite(pos, Add(q, "1"), q))
}

func (c *Ctx) FDiv(n, m Term) Term {
	q, r := c.TDivRem(n, m)
	neg := Or(And(Gt(r, "0"), Lt(m, "0")), And(Lt(r, "0"), Gt(m, "0")))
	return c.ufNamed("fdivf", n, m, Ite(neg, Sub(q, "1"), q))
}

// ufDiv: rounding functions are named as applications of uninterpreted functions (defined by
// their arithmetic meaning), so that two occurrences with provably equal arguments are equal by
// congruence, without the solver having to redo the arithmetic. GOVC_UFDIV=0 turns it off.
var ufDiv = os.Getenv("GOVC_UFDIV") != "0"

func (c *Ctx) ufNamed(f string, n, m, def Term) Term {
	if !ufDiv {
		return def
	}
	key := f + ":" + n + "|" + m
	if t, ok := c.memo[key]; ok {
		return t
	}
	h := c.Define("h", SInt, app(f, n, m))
	c.Assert(Eq(h, def))
	c.memo[key] = h
	return h
}

// FMod: result has the sign of m (Euclidean for m>0).
func (c *Ctx) FMod(n, m Term) Term {
	return Sub(n, Mul(m, c.FDiv(n, m)))
}

// RHE rounds n/m to nearest, ties to even; m > 0 assumed by callers (contract side condition).
func (c *Ctx) RHE(n, m Term) Term {
	q, r := c.TDivRem(n, m) // toward zero; |r| < m
	ar2 := Mul("2", Abs(r))
	up := Or(Gt(ar2, Abs(m)), And(Eq(ar2, Abs(m)), Not(Eq(app("mod", q, "2"), "0"))))
	// moving away from zero by one
	away := Ite(Or(And(Ge(n, "0"), Gt(m, "0")), And(Le(n, "0"), Lt(m, "0"))), Add(q, "1"), Sub(q, "1"))
	return c.ufNamed("rhef", n, m, Ite(up, away, q))
}

// BitLen term with axioms for the thresholds used in the code base.
var bitlenKs = []int{0, 1, 7, 8, 15, 16, 31, 32, 62, 63, 64, 127, 128, 254, 255, 256, 257, 315, 316, 1023, 1024, 1143, 1144}

func (c *Ctx) BitLen(x Term) Term {
	key := "bitlen:" + x
	if t, ok := c.memo[key]; ok {
		return t
	}
	r := app("bitlenf", x)
	cs := []Term{Ge(r, "0"), Eq(Eq(r, "0"), Eq(x, "0"))}
	for _, k := range bitlenKs {
		cs = append(cs, Eq(Gt(r, Lit(int64(k))), Ge(Abs(x), Pow2(k))))
	}
	c.Assert(And(cs...))
	c.memo[key] = r
	return r
}

// ---- solver runner ----

type Solver struct {
	Name string
	Argv func(file string, timeoutS int) []string
}

var solvers = []Solver{
	{"z3-new", func(f string, t int) []string { return []string{"z3-new", fmt.Sprintf("-T:%d", t), f} }},
	{"z3", func(f string, t int) []string { return []string{"z3", fmt.Sprintf("-T:%d", t), f} }},
	{"cvc5", func(f string, t int) []string {
		return []string{"cvc5", "--produce-models", fmt.Sprintf("--tlimit=%d", t*1000), f}
	}},
}

type SolveResult struct {
	Status string // unsat | sat | unknown
	Solver string
	TimeS  float64
	Model  string
	Tried  []string
}

func runSolver(s Solver, file string, timeoutS int) (string, string, float64) {
	return runSolverCtx(context.Background(), s, file, timeoutS)
}

func runSolverCtx(parent context.Context, s Solver, file string, timeoutS int) (string, string, float64) {
	t0 := time.Now()
	ctx, cancel := context.WithTimeout(parent, time.Duration(timeoutS+2)*time.Second)
	defer cancel()
	argv := s.Argv(file, timeoutS)
	cmd := exec.CommandContext(ctx, argv[0], argv[1:]...)
	var out bytes.Buffer
	cmd.Stdout = &out
	cmd.Stderr = &out
	_ = cmd.Run()
	el := time.Since(t0).Seconds()
	txt := out.String()
	first := strings.TrimSpace(strings.SplitN(txt, "\n", 2)[0])
	switch first {
	case "unsat", "sat":
		rest := ""
		if i := strings.Index(txt, "\n"); i >= 0 {
			rest = txt[i+1:]
		}
		return first, rest, el
	}
	if strings.HasPrefix(first, "(error") {
		return "error", txt, el
	}
	return "unknown", txt, el
}

// Solve races the solvers: z3-new first with a short budget, then all in parallel.
var solveSeq int64

func Solve(query string, scratchDir, name string, timeoutS int, getValues []string) SolveResult {
	seq := atomic.AddInt64(&solveSeq, 1)
	file := filepath.Join(scratchDir, fmt.Sprintf("%05d_%s.smt2", seq, sanitizeFile(name)))
	q := query + "(check-sat)\n"
	if len(getValues) > 0 {
		q += "(get-value (" + strings.Join(getValues, " ") + "))\n"
	}
	if err := os.WriteFile(file, []byte(q), 0o644); err != nil {
		return SolveResult{Status: "unknown", Model: err.Error()}
	}
	res := SolveResult{}
	// a short solo attempt by the fastest solver decides the easy majority; everything else
	// goes to the race at once
	quick := timeoutS
	if quick > 1 {
		quick = 1
	}
	isReach := strings.Contains(name, "reach") || strings.HasSuffix(name, ".continues") || strings.Contains(name, "vacuity") || strings.HasSuffix(name, ".before")
	// (reachability guards: a contradiction shows at once; a model of a nonlinear state may not
	// be found at all, and the guard is then inconclusive)
	st, model, el := runSolver(solvers[0], file, quick)
	res.Tried = append(res.Tried, fmt.Sprintf("%s:%s:%.2fs", solvers[0].Name, st, el))
	if st == "error" {
		first := strings.SplitN(model, "\n", 2)[0]
		res.Status, res.Solver, res.TimeS, res.Model = "error", solvers[0].Name, el, first
		return res
	}
	if st != "unknown" {
		res.Status, res.Solver, res.TimeS, res.Model = st, solvers[0].Name, el, model
		return res
	}
	type r struct {
		s     Solver
		st, m string
		el    float64
	}
	racers := solvers
	if isReach {
		// reachability guards are inconclusive when undecided: a short second opinion only
		if timeoutS > 3 {
			timeoutS = 3
		}
	}
	n := len(racers)
	ch := make(chan r, n+1)
	// the losers of the race are killed as soon as one solver answers
	raceCtx, raceCancel := context.WithCancel(context.Background())
	defer raceCancel()
	for _, s := range racers {
		s := s
		go func() {
			st, m, el := runSolverCtx(raceCtx, s, file, timeoutS)
			ch <- r{s, st, m, el}
		}()
	}
	// linear abstraction (products of symbolic factors as an uninterpreted function) joins the
	// race: only `unsat` is meaningful there. Not for reachability queries, where only `sat` helps.
	if os.Getenv("GOVC_ABS") != "0" && !isReach {
		if aq, ok := absNonlinear(q); ok {
			afile := strings.TrimSuffix(file, ".smt2") + ".abs.smt2"
			if err := os.WriteFile(afile, []byte(aq), 0o644); err == nil {
				n++
				abs := Solver{Name: solvers[0].Name + "/linear-abstraction", Argv: solvers[0].Argv}
				go func() {
					st, m, el := runSolverCtx(raceCtx, abs, afile, timeoutS)
					if st != "unsat" {
						st = "unknown"
					}
					ch <- r{abs, st, m, el}
				}()
			}
		}
	}
	total := el
	for k := 0; k < n; k++ {
		x := <-ch
		res.Tried = append(res.Tried, fmt.Sprintf("%s:%s:%.2fs", x.s.Name, x.st, x.el))
		if x.st != "unknown" && x.st != "error" && res.Status == "" {
			res.Status, res.Solver, res.TimeS, res.Model = x.st, x.s.Name, total+x.el, x.m
			// do not wait for the others
			return res
		}
		if x.el > total {
			total = x.el
		}
	}
	res.Status = "unknown"
	res.TimeS = total
	res.Model = ""
	return res
}

func sanitizeFile(s string) string {
	var b strings.Builder
	for _, r := range s {
		if (r >= 'a' && r <= 'z') || (r >= 'A' && r <= 'Z') || (r >= '0' && r <= '9') || r == '_' || r == '.' || r == '-' || r == '#' {
			b.WriteRune(r)
		} else {
			b.WriteByte('_')
		}
	}
	s2 := b.String()
	if len(s2) > 150 {
		s2 = s2[:150]
	}
	return s2
}

func sortedKeys[V any](m map[string]V) []string {
	ks := make([]string, 0, len(m))
	for k := range m {
		ks = append(ks, k)
	}
	sort.Strings(ks)
	return ks
}

// EMod: Euclidean modulus (result in [0, |m|)), exact for either sign of m.
func (c *Ctx) EMod(n, m Term) Term {
	if mv, ok := isNumeral(m); ok && mv.Sign() != 0 {
		return app("mod", n, m)
	}
	r := c.TRem(n, m)
	return Ite(Lt(r, "0"), Add(r, Abs(m)), r)
}

// ---- linear abstraction of a query ----
// absNonlinear replaces every product of two or more non-numeral factors by nested applications
// of the uninterpreted function mulf (factors sorted, so the abstraction is commutative). The
// abstracted query has more models than the original, hence `unsat` carries over; `sat` and
// `unknown` mean nothing. It decides obligations whose proof is congruence over compositions of
// rounding functions without the solver wandering into nonlinear arithmetic.
type sx struct {
	atom string
	list []*sx
}

func parseSx(src string) []*sx {
	var toks []string
	i := 0
	for i < len(src) {
		c := src[i]
		switch {
		case c == '(' || c == ')':
			toks = append(toks, string(c))
			i++
		case c == ' ' || c == '\n' || c == '\t' || c == '\r':
			i++
		case c == ';':
			for i < len(src) && src[i] != '\n' {
				i++
			}
		case c == '"':
			j := i + 1
			for j < len(src) && src[j] != '"' {
				j++
			}
			toks = append(toks, src[i:j+1])
			i = j + 1
		case c == '|':
			j := i + 1
			for j < len(src) && src[j] != '|' {
				j++
			}
			toks = append(toks, src[i:j+1])
			i = j + 1
		default:
			j := i
			for j < len(src) && !strings.ContainsRune("() \n\t\r", rune(src[j])) {
				j++
			}
			toks = append(toks, src[i:j])
			i = j
		}
	}
	pos := 0
	var rd func() *sx
	rd = func() *sx {
		t := toks[pos]
		pos++
		if t == "(" {
			n := &sx{list: []*sx{}}
			for pos < len(toks) && toks[pos] != ")" {
				n.list = append(n.list, rd())
			}
			pos++
			return n
		}
		return &sx{atom: t}
	}
	var out []*sx
	for pos < len(toks) {
		out = append(out, rd())
	}
	return out
}

func (n *sx) String() string {
	var b strings.Builder
	n.write(&b)
	return b.String()
}

func (n *sx) write(b *strings.Builder) {
	if n.list == nil {
		b.WriteString(n.atom)
		return
	}
	b.WriteByte('(')
	for i, c := range n.list {
		if i > 0 {
			b.WriteByte(' ')
		}
		c.write(b)
	}
	b.WriteByte(')')
}

func (n *sx) isNum() bool {
	if n.list == nil {
		if n.atom == "" {
			return false
		}
		for _, r := range n.atom {
			if r < '0' || r > '9' {
				return false
			}
		}
		return true
	}
	return len(n.list) == 2 && n.list[0].atom == "-" && n.list[0].list == nil && n.list[1].isNum()
}

func absRewrite(n *sx) *sx {
	if n.list == nil {
		return n
	}
	out := &sx{list: make([]*sx, len(n.list))}
	for i, c := range n.list {
		out.list[i] = absRewrite(c)
	}
	if len(out.list) >= 3 && out.list[0].list == nil && out.list[0].atom == "*" {
		var nums, oth []*sx
		for _, c := range out.list[1:] {
			if c.isNum() {
				nums = append(nums, c)
			} else {
				oth = append(oth, c)
			}
		}
		if len(oth) >= 2 {
			sort.Slice(oth, func(i, j int) bool { return oth[i].String() < oth[j].String() })
			t := oth[0]
			for _, o := range oth[1:] {
				t = &sx{list: []*sx{{atom: "mulf"}, t, o}}
			}
			if len(nums) > 0 {
				l := []*sx{{atom: "*"}}
				l = append(l, nums...)
				l = append(l, t)
				return &sx{list: l}
			}
			return t
		}
	}
	return out
}

func absNonlinear(q string) (res string, changed bool) {
	defer func() {
		if r := recover(); r != nil {
			res, changed = "", false
		}
	}()
	var b strings.Builder
	for _, n := range parseSx(q) {
		m := absRewrite(n)
		b.WriteString(m.String())
		b.WriteByte('\n')
	}
	s := b.String()
	return s, strings.Contains(q, "(* ")
}
