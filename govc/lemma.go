package main

import (
	"fmt"
	"path/filepath"
	"strings"
)

// dummy executor context for evaluating closed formulas (lemmas)
func (e *Engine) lemmaExec() *FnExec {
	x := &FnExec{eng: e, ctx: NewCtx(), mem: e.mem, heapBool: map[string]bool{}}
	x.entry = &State{reach: "true", heaps: map[string]Term{}, alloc: "0"}
	return x
}

// LemmaObligations: forall vars. hyps ==> concl_k, one obligation per conclusion.
func (e *Engine) LemmaObligations(l *Lemma) ([]*Obligation, []string) {
	x := e.lemmaExec()
	env := &Env{x: x, vars: map[string]TVal{}, heaps: map[string]Term{}, old: map[string]Term{}, alloc0: "0", errs: &x.errs}
	for _, v := range l.Vars {
		if strings.EqualFold(v[1], "bool") {
			env.vars[v[0]] = mathBool(x.ctx.Fresh(v[0], SBool))
		} else {
			env.vars[v[0]] = mathInt(x.ctx.Fresh(v[0], SInt))
		}
	}
	var hyps []Term
	for _, h := range l.Hyps {
		hyps = append(hyps, env.EvalBool(h.E))
	}
	hypLines := strings.Join(x.ctx.lines, "\n")
	var out []*Obligation
	for i, c := range l.Concl {
		goal := env.EvalBool(c.E)
		q := prelude + strings.Join(x.ctx.lines, "\n") + "\n(assert " + And(hyps...) + ")\n(assert " + Not(goal) + ")\n"
		name := "lemma:" + l.Name
		if len(l.Concl) > 1 {
			name += fmt.Sprintf("#%d", i+1)
		}
		out = append(out, &Obligation{Name: name, Func: "lemma:" + l.Name, Kind: "lemma", Src: c.Src, Query: q, Props: l.Props})
	}
	if len(hyps) > 0 {
		q := prelude + hypLines + "\n(assert " + And(hyps...) + ")\n"
		out = append(out, &Obligation{Name: "lemma:" + l.Name + "#vacuity", Func: "lemma:" + l.Name, Kind: "vacuity", Src: "hypotheses are satisfiable", Query: q, ExpectSat: true, Props: l.Props})
	}
	return out, x.errs
}

// CanaryObligations: contracts under /verif/canaries/<prop>.canary are deliberately false
// variants of real contracts; each must be refuted by the engine.
func (e *Engine) CanaryObligations(prop string) ([]*Obligation, []string) {
	cs := NewContractSet()
	if err := cs.LoadDir(filepath.Join(verifDir, "canaries"), prop+".canary", false); err != nil {
		return nil, nil
	}
	var obls []*Obligation
	var names []string
	for _, k := range sortedKeys(cs.Funcs) {
		c := cs.Funcs[k]
		c.Trusted = false
		fn := e.funcs[c.Key]
		name := "canary:" + shortName(c.Key)
		names = append(names, name)
		if fn == nil {
			continue
		}
		os, _, _ := e.VerifyFunction(fn, c)
		for _, o := range os {
			if o.ExpectSat {
				continue
			}
			o.Func = name
			o.Name = "canary:" + o.Name
			obls = append(obls, o)
		}
	}
	return obls, names
}
