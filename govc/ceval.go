package main

// Evaluation of contract expressions to SMT terms.

import (
	"fmt"
	"go/constant"
	"go/types"
	"math/big"
	"strings"

	"golang.org/x/tools/go/ssa"
)

type TVal struct {
	V Val
	T types.Type // nil: mathematical value (Int or Bool)
}

type Env struct {
	x        *FnExec
	vars     map[string]TVal
	heaps    map[string]Term // current heaps
	old      map[string]Term // heaps at function entry (for old())
	alloc0   Term            // allocation frontier that fresh() is relative to
	pkg      *ssa.Package
	inOld    bool
	errs     *[]string
	resolver func(name string) (TVal, bool) // extra name resolution (loop variables)
	qdepth   int                             // inside a quantifier body: no fresh symbols may be introduced
	lets     map[string]CExpr                // contract-level let definitions, evaluated on first use
	refOf    func(name string) (TVal, bool)  // address of a captured variable (closures)
	lenient  bool                            // call-site assertions: an unevaluable subformula in a positive position reads as false
	// witness hints for top-level existentials of a postcondition being proved (never set when
	// a contract is assumed at a call site)
	witness      map[string]CExpr
	witnessLocal func(name string) (TVal, bool)
}

func (e *Env) errorf(f string, a ...any) {
	*e.errs = append(*e.errs, fmt.Sprintf(f, a...))
}

func (e *Env) curHeaps() map[string]Term {
	if e.inOld {
		return e.old
	}
	return e.heaps
}

func (e *Env) heap(key string, isBool bool) Term {
	h := e.curHeaps()
	if t, ok := h[key]; ok {
		return t
	}
	return e.x.initHeap(key, isBool)
}

func mathInt(t Term) TVal  { return TVal{V: IntV(t)} }
func mathBool(t Term) TVal { return TVal{V: BoolV(t)} }

// EvalBool evaluates a clause to a Bool term.
func (e *Env) EvalBool(c CExpr) Term {
	v := e.Eval(c)
	if v.V.IsComp() || !v.V.B {
		e.errorf("clause is not boolean: %s", cexprString(c))
		return "true"
	}
	return v.V.T
}

func (e *Env) scalar(v TVal, what string) Term {
	if v.V.IsComp() {
		// unwrap single-field wrappers around *big.Int (BigDec, Int, Dec, ...): use val
		e.errorf("composite value used as scalar in %s", what)
		return "0"
	}
	return v.V.T
}

func (e *Env) load(addr Term, t types.Type) Val {
	return e.loadL(addr, t, e.x.mem.Leaves(t))
}

func (e *Env) loadL(addr Term, t types.Type, leaves []Leaf) Val {
	flat := make([]Val, len(leaves))
	for i, l := range leaves {
		a := addr
		if i > 0 {
			a = Add(addr, Lit(int64(i)))
		}
		term := Sel(e.heap(l.Key, l.Bool), a)
		if l.Bool {
			flat[i] = BoolV(term)
		} else {
			flat[i] = IntV(term)
			if l.IsPtr && e.qdepth == 0 && e.x.entry != nil {
				// well-formedness of the entry heap, instantiated at this address (as for
				// loads in the code): pointers stored in pre-existing objects point to
				// pre-existing objects
				h0 := e.x.initHeap(l.Key, false)
				e.x.ctx.Assert(Implies(And(Ge(a, "0"), Lt(a, e.x.entry.alloc)), And(Ge(Sel(h0, a), "0"), Lt(Sel(h0, a), e.x.entry.alloc))))
			}
		}
	}
	if e.qdepth == 0 && e.x.entry != nil {
		e.x.entryHeapShape(addr, t, leaves)
	}
	return e.x.mem.Shape(t, flat)
}

// val: the mathematical integer a value denotes.
func (e *Env) valOf(v TVal) Term {
	if v.T == nil {
		return e.scalar(v, "val")
	}
	t := v.T
	if p, ok := t.Underlying().(*types.Pointer); ok {
		if typeKey(p.Elem()) == "math/big.Int" {
			return Sel(e.heap("Big", false), v.V.T)
		}
		// pointer to wrapper struct
		inner := e.load(v.V.T, p.Elem())
		return e.valOf(TVal{inner, p.Elem()})
	}
	if st, ok := t.Underlying().(*types.Struct); ok && st.NumFields() == 1 {
		return e.valOf(TVal{v.V.F[0], st.Field(0).Type()})
	}
	if _, ok := t.Underlying().(*types.Basic); ok {
		return v.V.T
	}
	if isOpaque(t) {
		return v.V.T
	}
	e.errorf("val() of unsupported type %s", t)
	return "0"
}

func constToTVal(c constant.Value, t types.Type) (TVal, bool) {
	switch c.Kind() {
	case constant.Int:
		b, ok := new(big.Int).SetString(c.ExactString(), 10)
		if !ok {
			return TVal{}, false
		}
		return TVal{IntV(LitBig(b)), nil}, true
	case constant.Bool:
		if constant.BoolVal(c) {
			return mathBool("true"), true
		}
		return mathBool("false"), true
	}
	return TVal{}, false
}

func (e *Env) lookup(name string) (TVal, bool) {
	if v, ok := e.vars[name]; ok {
		return v, true
	}
	if le, ok := e.lets[name]; ok {
		// a let is a macro: evaluated in the state (old/current) of its use
		delete(e.lets, name)
		v := e.Eval(le)
		e.lets[name] = le
		return v, true
	}
	if e.resolver != nil {
		if v, ok := e.resolver(name); ok {
			return v, true
		}
	}
	if e.pkg != nil {
		if m, ok := e.pkg.Members[name]; ok {
			switch m := m.(type) {
			case *ssa.Global:
				addr := e.x.globalAddr(m)
				el := m.Type().(*types.Pointer).Elem()
				return TVal{e.load(addr, el), el}, true
			case *ssa.NamedConst:
				if tv, ok := constToTVal(m.Value.Value, m.Type()); ok {
					return tv, true
				}
			}
		}
		// a package-level variable or constant of a directly imported package, by its bare
		// name, when exactly one import declares it
		var hit ssa.Member
		n := 0
		for _, imp := range e.pkg.Pkg.Imports() {
			sp := e.x.eng.ssaPkg(imp.Path())
			if sp == nil {
				continue
			}
			if m, ok := sp.Members[name]; ok {
				switch m.(type) {
				case *ssa.Global, *ssa.NamedConst:
					hit = m
					n++
				}
			}
		}
		if n == 1 {
			switch m := hit.(type) {
			case *ssa.Global:
				addr := e.x.globalAddr(m)
				el := m.Type().(*types.Pointer).Elem()
				return TVal{e.load(addr, el), el}, true
			case *ssa.NamedConst:
				if tv, ok := constToTVal(m.Value.Value, m.Type()); ok {
					return tv, true
				}
			}
		}
	}
	// a package-level variable of any package that the function itself refers to (for instance
	// an error value of a dependency it compares with), by its bare name when unambiguous
	if e.x != nil && e.x.fn != nil {
		var g *ssa.Global
		amb := false
		for _, b := range e.x.fn.Blocks {
			for _, in := range b.Instrs {
				for _, op := range in.Operands(nil) {
					if gg, ok := (*op).(*ssa.Global); ok && gg.Name() == name {
						if g != nil && g != gg {
							amb = true
						}
						g = gg
					}
				}
			}
		}
		if g != nil && !amb {
			addr := e.x.globalAddr(g)
			el := g.Type().(*types.Pointer).Elem()
			return TVal{e.load(addr, el), el}, true
		}
	}
	return TVal{}, false
}

func (e *Env) Eval(c CExpr) TVal {
	if e.lenient {
		// leniency only travels through &&, || and the consequent of ==>: anything else
		// (negation, <==>, conditionals, quantifiers, atoms) is evaluated strictly
		if b, ok := c.(*CBinary); !ok || (b.Op != "&&" && b.Op != "||" && b.Op != "==>") {
			e.lenient = false
			defer func() { e.lenient = true }()
		}
	}
	switch c := c.(type) {
	case *CNum:
		return mathInt(LitBig(c.V))
	case *CBool:
		if c.V {
			return mathBool("true")
		}
		return mathBool("false")
	case *CStr:
		return mathInt(e.x.strConst(c.V))
	case *CIdent:
		if c.Name == "nil" {
			return TVal{IntV("0"), types.Typ[types.UntypedNil]}
		}
		if v, ok := e.lookup(c.Name); ok {
			return v
		}
		e.errorf("unknown identifier %s", c.Name)
		return mathInt("0")
	case *CUnary:
		x := e.Eval(c.X)
		switch c.Op {
		case "!":
			return mathBool(Not(e.scalar(x, "!")))
		case "-":
			return mathInt(Neg(e.scalar(x, "-")))
		}
	case *CTern:
		cond := e.EvalBool(c.C)
		a, b := e.Eval(c.A), e.Eval(c.B)
		if a.V.B {
			return mathBool(Ite(cond, e.scalar(a, "?:"), e.scalar(b, "?:")))
		}
		return mathInt(Ite(cond, e.scalar(a, "?:"), e.scalar(b, "?:")))
	case *CQuant:
		if c.Ranged {
			saved, had := e.vars[c.Var]
			var parts []Term
			for k := c.Lo; k <= c.Hi; k++ {
				e.vars[c.Var] = mathInt(Lit(k))
				parts = append(parts, e.EvalBool(c.Body))
			}
			if had {
				e.vars[c.Var] = saved
			} else {
				delete(e.vars, c.Var)
			}
			if c.Forall {
				return mathBool(And(parts...))
			}
			return mathBool(Or(parts...))
		}
		if !c.Forall && e.qdepth == 0 && e.witness != nil {
			if w, ok := e.witness[c.Var]; ok {
				// proving "exists v :: B(v)" by the proposed witness: B(w) (stronger, hence sound)
				prevR := e.resolver
				e.resolver = func(n string) (TVal, bool) {
					if e.witnessLocal != nil {
						if v, ok := e.witnessLocal(n); ok {
							return v, true
						}
					}
					if prevR != nil {
						return prevR(n)
					}
					return TVal{}, false
				}
				wv := e.Eval(w)
				e.resolver = prevR
				saved, had := e.vars[c.Var]
				e.vars[c.Var] = wv
				body := e.EvalBool(c.Body)
				if had {
					e.vars[c.Var] = saved
				} else {
					delete(e.vars, c.Var)
				}
				return mathBool(body)
			}
		}
		name := e.x.ctx.boundVar(c.Var)
		saved, had := e.vars[c.Var]
		e.vars[c.Var] = mathInt(name)
		e.qdepth++
		e.x.ctx.inQuant++
		body := e.EvalBool(c.Body)
		e.x.ctx.inQuant--
		e.qdepth--
		if had {
			e.vars[c.Var] = saved
		} else {
			delete(e.vars, c.Var)
		}
		q := "exists"
		if c.Forall {
			q = "forall"
		}
		term := fmt.Sprintf("(%s ((%s Int)) %s)", q, name, body)
		if c.Forall && e.qdepth == 0 && e.x != nil && e.x.ctx.inQuant == 0 {
			// name the formula and help the solver instantiate it (see registerQuant)
			qn := e.x.ctx.Define("Q", SBool, term)
			e.x.registerQuant(qn, name, body)
			return mathBool(qn)
		}
		return mathBool(term)
	case *CBinary:
		return e.evalBinary(c)
	case *CSel:
		if id, ok := c.X.(*CIdent); ok {
			if _, isVar := e.lookup(id.Name); !isVar && e.pkg != nil {
				// package qualifier: a package imported by the package under analysis
				for _, imp := range e.pkg.Pkg.Imports() {
					if imp.Name() == id.Name {
						if sp := e.x.eng.ssaPkg(imp.Path()); sp != nil {
							sub := *e
							sub.pkg = sp
							sub.vars = map[string]TVal{}
							sub.resolver = nil
							if v, ok := sub.lookup(c.Name); ok {
								return v
							}
						}
						e.errorf("unknown member %s.%s", id.Name, c.Name)
						return mathInt("0")
					}
				}
			}
		}
		x := e.Eval(c.X)
		return e.selField(x, c.Name)
	case *CIndex:
		if id, ok := c.X.(*CIdent); ok && id.Name == "Big" {
			i := e.Eval(c.I)
			return mathInt(Sel(e.heap("Big", false), e.scalar(i, "Big[]")))
		}
		x := e.Eval(c.X)
		i := e.scalar(e.Eval(c.I), "index")
		return e.index(x, i)
	case *CCall:
		return e.evalCall(c)
	}
	e.errorf("cannot evaluate %s", cexprString(c))
	return mathInt("0")
}

func (e *Env) index(x TVal, i Term) TVal {
	if x.T == nil {
		e.errorf("indexing a mathematical value")
		return mathInt("0")
	}
	switch u := x.T.Underlying().(type) {
	case *types.Slice:
		sz := e.x.mem.Size(u.Elem())
		addr := Add(x.V.F[0].T, Mul(i, Lit(int64(sz))))
		return TVal{e.load(addr, u.Elem()), u.Elem()}
	case *types.Pointer:
		if a, ok := u.Elem().Underlying().(*types.Array); ok {
			sz := e.x.mem.Size(a.Elem())
			addr := Add(x.V.T, Mul(i, Lit(int64(sz))))
			return TVal{e.load(addr, a.Elem()), a.Elem()}
		}
	case *types.Map:
		key := "map:" + typeKey(x.T)
		_, isBool := u.Elem().Underlying().(*types.Basic)
		isBool = isBool && u.Elem().Underlying().(*types.Basic).Info()&types.IsBoolean != 0
		h := e.x.mapHeap(e.curHeaps(), key, isBool)
		hin := e.x.mapHeap(e.curHeaps(), "mapin:"+typeKey(x.T), true)
		present := And(Not(Eq(x.V.T, "0")), Sel(Sel(hin, x.V.T), i))
		t := Sel(Sel(h, x.V.T), i)
		if isBool {
			// Go semantics: the zero value when the key is absent (or the map nil)
			return TVal{BoolV(Ite(present, t, "false")), u.Elem()}
		}
		if len(e.x.mem.Leaves(u.Elem())) == 1 {
			return TVal{e.x.mem.Shape(u.Elem(), []Val{IntV(t)}), u.Elem()}
		}
	}
	e.errorf("unsupported index on %s", x.T)
	return mathInt("0")
}

func (e *Env) selField(x TVal, name string) TVal {
	if x.T == nil {
		e.errorf("field %s of mathematical value", name)
		return mathInt("0")
	}
	t := x.T
	if p, ok := t.Underlying().(*types.Pointer); ok {
		st, ok := p.Elem().Underlying().(*types.Struct)
		if !ok {
			e.errorf("field %s of non-struct pointer %s", name, t)
			return mathInt("0")
		}
		for i := 0; i < st.NumFields(); i++ {
			if st.Field(i).Name() == name {
				off := e.x.mem.FieldOffset(p.Elem(), i)
				addr := Add(x.V.T, Lit(int64(off)))
				ft := st.Field(i).Type()
				return TVal{e.loadL(addr, ft, e.x.mem.FieldLeaves(p.Elem(), i)), ft}
			}
		}
		// promoted through embedded fields
		for i := 0; i < st.NumFields(); i++ {
			if st.Field(i).Embedded() {
				off := e.x.mem.FieldOffset(p.Elem(), i)
				ft := st.Field(i).Type()
				inner := TVal{e.load(Add(x.V.T, Lit(int64(off))), ft), ft}
				if _, ok := ft.Underlying().(*types.Struct); ok {
					if hasField(ft, name) {
						return e.selField(inner, name)
					}
				}
			}
		}
		e.errorf("no field %s in %s", name, t)
		return mathInt("0")
	}
	if st, ok := t.Underlying().(*types.Struct); ok && !isOpaque(t) {
		for i := 0; i < st.NumFields(); i++ {
			if st.Field(i).Name() == name {
				return TVal{x.V.F[i], st.Field(i).Type()}
			}
		}
		for i := 0; i < st.NumFields(); i++ {
			if st.Field(i).Embedded() && hasField(st.Field(i).Type(), name) {
				return e.selField(TVal{x.V.F[i], st.Field(i).Type()}, name)
			}
		}
	}
	// pseudo-fields
	if _, ok := t.Underlying().(*types.Slice); ok {
		switch name {
		case "ptr":
			return mathInt(x.V.F[0].T)
		case "len":
			return mathInt(x.V.F[1].T)
		case "cap":
			return mathInt(x.V.F[2].T)
		}
	}
	if _, ok := t.Underlying().(*types.Interface); ok {
		switch name {
		case "typ":
			return mathInt(x.V.F[0].T)
		case "val":
			return mathInt(x.V.F[1].T)
		}
	}
	e.errorf("no field %s in %s", name, t)
	return mathInt("0")
}

func hasField(t types.Type, name string) bool {
	if p, ok := t.Underlying().(*types.Pointer); ok {
		t = p.Elem()
	}
	st, ok := t.Underlying().(*types.Struct)
	if !ok {
		return false
	}
	for i := 0; i < st.NumFields(); i++ {
		if st.Field(i).Name() == name {
			return true
		}
		if st.Field(i).Embedded() && hasField(st.Field(i).Type(), name) {
			return true
		}
	}
	return false
}

// nilTest returns the term "x is nil" for a typed value.
func (e *Env) nilTest(x TVal) Term {
	if x.T == nil {
		return Eq(x.V.T, "0")
	}
	switch x.T.Underlying().(type) {
	case *types.Slice:
		return Eq(x.V.F[0].T, "0")
	case *types.Interface:
		return Eq(x.V.F[0].T, "0")
	}
	if x.V.IsComp() {
		e.errorf("nil comparison on composite %s", x.T)
		return "false"
	}
	return Eq(x.V.T, "0")
}

func isNilT(t TVal) bool {
	return t.T != nil && t.T == types.Typ[types.UntypedNil]
}

func (e *Env) eqVals(a, b TVal) Term {
	if isNilT(a) {
		return e.nilTest(b)
	}
	if isNilT(b) {
		return e.nilTest(a)
	}
	fa, fb := a.V.Flatten(), b.V.Flatten()
	if len(fa) != len(fb) {
		e.errorf("comparing values of different shapes")
		return "false"
	}
	var cs []Term
	for i := range fa {
		cs = append(cs, Eq(fa[i].T, fb[i].T))
	}
	return And(cs...)
}

// evalBoolLenient evaluates a subformula of a call-site assertion; ok is false when it names
// something that does not exist at this call site (the error is swallowed). Only used in positive
// positions, where replacing the subformula by false can only make the assertion harder to prove.
func (e *Env) evalBoolLenient(c CExpr) (Term, bool) {
	n := len(e.x.errs)
	t := e.EvalBool(c)
	if len(e.x.errs) > n {
		e.x.errs = e.x.errs[:n]
		return "false", false
	}
	return t, true
}

func (e *Env) evalBinary(c *CBinary) TVal {
	if e.lenient {
		switch c.Op {
		case "&&":
			x, _ := e.evalBoolLenient(c.X)
			y, _ := e.evalBoolLenient(c.Y)
			return mathBool(And(x, y))
		case "||":
			x, _ := e.evalBoolLenient(c.X)
			y, _ := e.evalBoolLenient(c.Y)
			return mathBool(Or(x, y))
		case "==>":
			// the antecedent is a negative position: it has to be evaluable (strict, and not
			// lenient inside); an unevaluable consequent counts as false
			e.lenient = false
			x := e.EvalBool(c.X)
			e.lenient = true
			y, _ := e.evalBoolLenient(c.Y)
			return mathBool(Implies(x, y))
		}
	}
	switch c.Op {
	case "&&":
		return mathBool(And(e.EvalBool(c.X), e.EvalBool(c.Y)))
	case "||":
		return mathBool(Or(e.EvalBool(c.X), e.EvalBool(c.Y)))
	case "==>":
		return mathBool(Implies(e.EvalBool(c.X), e.EvalBool(c.Y)))
	case "<==>":
		return mathBool(Eq(e.EvalBool(c.X), e.EvalBool(c.Y)))
	case "^":
		x, okx := c.X.(*CNum)
		y, oky := c.Y.(*CNum)
		if okx && oky {
			return mathInt(LitBig(new(big.Int).Exp(x.V, y.V, nil)))
		}
		e.errorf("^ needs literal operands: %s", cexprString(c))
		return mathInt("0")
	}
	x, y := e.Eval(c.X), e.Eval(c.Y)
	switch c.Op {
	case "==":
		return mathBool(e.eqVals(x, y))
	case "!=":
		return mathBool(Not(e.eqVals(x, y)))
	}
	a, b := e.scalar(x, c.Op), e.scalar(y, c.Op)
	switch c.Op {
	case "+":
		return mathInt(Add(a, b))
	case "-":
		return mathInt(Sub(a, b))
	case "*":
		e.x.ctx.MulHint(a, b)
		return mathInt(Mul(a, b))
	case "/":
		return mathInt(e.x.ctx.TDiv(a, b))
	case "%":
		return mathInt(e.x.ctx.TRem(a, b))
	case "<":
		return mathBool(Lt(a, b))
	case "<=":
		return mathBool(Le(a, b))
	case ">":
		return mathBool(Gt(a, b))
	case ">=":
		return mathBool(Ge(a, b))
	}
	e.errorf("unknown operator %s", c.Op)
	return mathInt("0")
}

func (e *Env) evalCall(c *CCall) TVal {
	ctx := e.x.ctx
	if c.Fn == "owned" {
		// ownership of a result graph: registered at call sites (collectFresh); as a formula
		// it only says the pointer is a new allocation
		if tv := e.Eval(c.Args[0]); tv.T != nil && tv.V.IsComp() {
			// a struct value: the region registered at the call site carries the meaning
			return mathBool("true")
		}
		return e.evalCall(&CCall{Fn: "fresh", Args: c.Args})
	}
	argT := func(i int) Term {
		if i >= len(c.Args) {
			e.errorf("%s: missing argument %d", c.Fn, i)
			return "0"
		}
		return e.scalar(e.Eval(c.Args[i]), c.Fn)
	}
	litArg := func(i int) (int, bool) {
		if i < len(c.Args) {
			if n, ok := c.Args[i].(*CNum); ok && n.V.IsInt64() {
				return int(n.V.Int64()), true
			}
		}
		return 0, false
	}
	if e.qdepth > 0 && ufDiv {
		// under a quantifier the rounding functions are bare applications of their
		// uninterpreted symbols: no defining axiom is available for the instances (weaker,
		// hence sound), but instances whose arguments equal those of a ground occurrence are
		// equal to it by congruence
		switch c.Fn {
		case "tdiv":
			return mathInt(app("tdivf", argT(0), argT(1)))
		case "trem":
			return mathInt(app("tremf", argT(0), argT(1)))
		case "fdiv":
			return mathInt(app("fdivf", argT(0), argT(1)))
		case "cdiv":
			return mathInt(app("cdivf", argT(0), argT(1)))
		case "rhe":
			return mathInt(app("rhef", argT(0), argT(1)))
		}
	}
	if e.qdepth > 0 {
		switch c.Fn {
		case "tdiv", "trem", "fdiv", "fmod", "cdiv", "rhe", "bitlen", "pow2":
			e.errorf("%s is not supported under a quantifier", c.Fn)
			return mathInt("0")
		}
	}
	switch c.Fn {
	case "old":
		saved := e.inOld
		e.inOld = true
		v := e.Eval(c.Args[0])
		e.inOld = saved
		return v
	case "val":
		return mathInt(e.valOf(e.Eval(c.Args[0])))
	case "fresh":
		p := e.Eval(c.Args[0])
		t := e.scalar(p, "fresh")
		return mathBool(And(Ge(t, e.alloc0), Gt(t, "0")))
	case "unchanged":
		cur := e.Eval(c.Args[0])
		saved := e.inOld
		e.inOld = true
		old := e.Eval(c.Args[0])
		e.inOld = saved
		return mathBool(e.eqVals(cur, old))
	case "len":
		x := e.Eval(c.Args[0])
		if x.T != nil {
			switch u := x.T.Underlying().(type) {
			case *types.Slice:
				return mathInt(x.V.F[1].T)
			case *types.Map:
				return mathInt(Sel(e.heap("maplen:"+typeKey(x.T), false), x.V.T))
			case *types.Basic:
				if u.Info()&types.IsString != 0 {
					return mathInt(app("strlen", x.V.T))
				}
			}
		}
		e.errorf("len of unsupported value")
		return mathInt("0")
	case "cap":
		x := e.Eval(c.Args[0])
		return mathInt(x.V.F[2].T)
	case "haskey":
		// haskey(m, k): the Go map m has an entry for key k
		m := e.Eval(c.Args[0])
		k := e.Eval(c.Args[1])
		if m.T != nil {
			if _, ok := m.T.Underlying().(*types.Map); ok && !k.V.IsComp() {
				hin := e.x.mapHeap(e.curHeaps(), "mapin:"+typeKey(m.T), true)
				return mathBool(And(Not(Eq(m.V.T, "0")), Sel(Sel(hin, m.V.T), k.V.T)))
			}
		}
		e.errorf("haskey: not a map with scalar keys")
		return mathBool("false")
	case "abs":
		return mathInt(Abs(argT(0)))
	case "sgn":
		return mathInt(app("sgn", argT(0)))
	case "min":
		return mathInt(app("minI", argT(0), argT(1)))
	case "max":
		return mathInt(app("maxI", argT(0), argT(1)))
	case "tdiv":
		return mathInt(ctx.TDiv(argT(0), argT(1)))
	case "trem":
		return mathInt(ctx.TRem(argT(0), argT(1)))
	case "fdiv":
		return mathInt(ctx.FDiv(argT(0), argT(1)))
	case "fmod":
		return mathInt(ctx.FMod(argT(0), argT(1)))
	case "cdiv":
		return mathInt(ctx.CDiv(argT(0), argT(1)))
	case "rhe":
		return mathInt(ctx.RHE(argT(0), argT(1)))
	case "pow10":
		if k, ok := litArg(0); ok && k >= 0 {
			return mathInt(Pow10(k))
		}
		if n, ok := isNumeral(argT(0)); ok && n.IsInt64() && n.Int64() >= 0 && n.Int64() < 4096 {
			return mathInt(Pow10(int(n.Int64())))
		}
		if e.qdepth > 0 {
			return mathInt(app("pow10", argT(0)))
		}
		return mathInt(ctx.Pow10Sym(argT(0)))
	case "pow2":
		if k, ok := litArg(0); ok && k >= 0 {
			return mathInt(Pow2(k))
		}
		return mathInt(ctx.Pow2Sym(argT(0)))
	case "emod":
		return mathInt(ctx.EMod(argT(0), argT(1)))
	case "ediv":
		return mathInt(app("div", argT(0), argT(1)))
	case "fits":
		k, ok := litArg(1)
		if !ok {
			e.errorf("fits(x, k) needs literal k")
			return mathBool("true")
		}
		return mathBool(Lt(Abs(argT(0)), Pow2(k)))
	case "bitlen":
		return mathInt(ctx.BitLen(argT(0)))
	case "wrap64", "wrapu64", "wrap32", "wrapu32", "wrapu16", "wrapu8":
		return mathInt(app(c.Fn, argT(0)))
	case "ref":
		// ref(v): the address of the captured variable v (closure free variable)
		if id, ok := c.Args[0].(*CIdent); ok && e.refOf != nil {
			if tv, ok := e.refOf(id.Name); ok {
				return tv
			}
		}
		// an address-taken local of the function itself
		if id, ok := c.Args[0].(*CIdent); ok {
			for _, blk := range e.x.fn.Blocks {
				for _, in := range blk.Instrs {
					if a, ok := in.(*ssa.Alloc); ok && a.Comment == id.Name {
						if v, ok := e.x.vals[a]; ok {
							return TVal{v, a.Type()}
						}
					}
				}
			}
		}
		e.errorf("ref(): not a captured variable: %s", cexprString(c.Args[0]))
		return mathInt("0")
	case "typeid":
		if s, ok := c.Args[0].(*CStr); ok {
			return mathInt(Lit(int64(e.x.eng.typeIDByName(s.V))))
		}
		e.errorf("typeid expects a string literal")
		return mathInt("0")
	case "deref":
		// deref(p): the value a pointer refers to (in the state of the expression)
		tv := e.Eval(c.Args[0])
		if tv.T != nil {
			if pt, ok := tv.T.Underlying().(*types.Pointer); ok && !tv.V.IsComp() {
				return TVal{e.load(tv.V.T, pt.Elem()), pt.Elem()}
			}
		}
		e.errorf("deref(): not a pointer: %s", cexprString(c.Args[0]))
		return mathInt("0")
	case "pkgvar":
		// pkgvar("import/path", "Name"): a package-level variable of any package of the program
		if len(c.Args) == 2 {
			ps, ok1 := c.Args[0].(*CStr)
			ns, ok2 := c.Args[1].(*CStr)
			if ok1 && ok2 {
				if sp := e.x.eng.ssaPkg(ps.V); sp != nil {
					if g, ok := sp.Members[ns.V].(*ssa.Global); ok {
						addr := e.x.globalAddr(g)
						el := g.Type().(*types.Pointer).Elem()
						return TVal{e.load(addr, el), el}
					}
				}
			}
		}
		e.errorf("pkgvar: no such package variable: %s", cexprString(c))
		return mathInt("0")
	case "asptr", "ptrtypeid":
		// asptr(v, "T"): the address v seen as a *T (T a named type of the function's package);
		// ptrtypeid("T"): the dynamic-type id an interface holding a *T carries
		si := len(c.Args) - 1
		s, ok := c.Args[si].(*CStr)
		if !ok || e.x.fn.Pkg == nil {
			e.errorf("%s expects a type name string", c.Fn)
			return mathInt("0")
		}
		obj := e.x.fn.Pkg.Pkg.Scope().Lookup(s.V)
		tn, ok := obj.(*types.TypeName)
		if !ok {
			e.errorf("%s: no type %s in package %s", c.Fn, s.V, e.x.fn.Pkg.Pkg.Path())
			return mathInt("0")
		}
		pt := types.NewPointer(tn.Type())
		if c.Fn == "ptrtypeid" {
			return mathInt(Lit(int64(e.x.eng.typeID(pt))))
		}
		return TVal{IntV(e.scalar(e.Eval(c.Args[0]), "asptr")), pt}
	case "ghost":
		// ghost(name): a cell of abstract state, changed only through contracts' modifies clauses
		id, ok := c.Args[0].(*CIdent)
		if !ok {
			e.errorf("ghost(name) expects an identifier")
			return mathInt("0")
		}
		idx := "0"
		if len(c.Args) > 1 {
			idx = e.scalar(e.Eval(c.Args[1]), "ghost index")
		}
		return mathInt(Sel(e.heap("ghost:"+id.Name, false), idx))
	case "isnil":
		return mathBool(e.nilTest(e.Eval(c.Args[0])))
	case "iserr":
		return mathBool(Not(e.nilTest(e.Eval(c.Args[0]))))
	case "addr":
		// addr(x): address held by a pointer-like value
		return mathInt(e.scalar(e.Eval(c.Args[0]), "addr"))
	case "same":
		// same(a,b): all leaves equal
		return mathBool(e.eqVals(e.Eval(c.Args[0]), e.Eval(c.Args[1])))
	}
	if strings.HasPrefix(c.Fn, "uf_") || strings.HasPrefix(c.Fn, "ufb_") {
		var args []Term
		for i := range c.Args {
			v := e.Eval(c.Args[i])
			for _, l := range v.V.Flatten() {
				if l.B {
					args = append(args, Ite(l.T, "1", "0"))
				} else {
					args = append(args, l.T)
				}
			}
		}
		isBool := strings.HasPrefix(c.Fn, "ufb_")
		f := ctx.UF(c.Fn, len(args), isBool)
		t := f
		if len(args) > 0 {
			t = app(f, args...)
		}
		if isBool {
			return mathBool(t)
		}
		return mathInt(t)
	}
	if d, ok := e.x.eng.cs.Defs[c.Fn]; ok {
		if len(d.Params) != len(c.Args) {
			e.errorf("%s: %d arguments for %d parameters", c.Fn, len(c.Args), len(d.Params))
			return mathBool("true")
		}
		saved := map[string]*TVal{}
		vals := make([]TVal, len(c.Args))
		for i := range c.Args {
			vals[i] = e.Eval(c.Args[i])
		}
		for i, p := range d.Params {
			if old, had := e.vars[p]; had {
				o := old
				saved[p] = &o
			} else {
				saved[p] = nil
			}
			e.vars[p] = vals[i]
		}
		r := e.Eval(d.Body)
		for p, o := range saved {
			if o == nil {
				delete(e.vars, p)
			} else {
				e.vars[p] = *o
			}
		}
		return r
	}
	e.errorf("unknown spec function %s", c.Fn)
	return mathInt("0")
}

// ---- extra Ctx helpers used by the evaluator ----

func (c *Ctx) boundVar(name string) string {
	c.n++
	return fmt.Sprintf("%s!b%d", sanitize(name), c.n)
}

func (c *Ctx) UF(name string, arity int, isBool bool) Term {
	key := fmt.Sprintf("uf:%s/%d", name, arity)
	if t, ok := c.memo[key]; ok {
		return t
	}
	sort := SInt
	if isBool {
		sort = SBool
	}
	n := sanitize(name)
	if arity == 0 {
		c.lines = append(c.lines, fmt.Sprintf("(declare-const %s %s)", n, sort))
	} else {
		c.lines = append(c.lines, fmt.Sprintf("(declare-fun %s (%s) %s)", n, strings.TrimSpace(strings.Repeat("Int ", arity)), sort))
	}
	c.memo[key] = n
	return n
}

// Pow10Sym: pow10 of a symbolic exponent: uninterpreted with the instances that matter.
func (c *Ctx) Pow10Sym(k Term) Term {
	if n, ok := isNumeral(k); ok && n.IsInt64() && n.Int64() >= 0 && n.Int64() < 4096 {
		return Pow10(int(n.Int64()))
	}
	key := "pow10:" + k
	if t, ok := c.memo[key]; ok {
		return t
	}
	r := c.Fresh("p10", SInt)
	cs := []Term{Eq(r, app("pow10", k)), Implies(Ge(k, "0"), Gt(r, "0"))}
	// ground instances over the range the code base uses
	max := c.pow10Max
	if max == 0 {
		max = 120
	}
	for i := 0; i <= max; i++ {
		cs = append(cs, Implies(Eq(k, Lit(int64(i))), Eq(r, Pow10(i))))
	}
	c.Assert(And(cs...))
	c.memo[key] = r
	return r
}

func (c *Ctx) Pow2Sym(k Term) Term {
	if n, ok := isNumeral(k); ok && n.IsInt64() && n.Int64() >= 0 && n.Int64() < 4096 {
		return Pow2(int(n.Int64()))
	}
	key := "pow2:" + k
	if t, ok := c.memo[key]; ok {
		return t
	}
	r := c.Fresh("p2", SInt)
	cs := []Term{Implies(Ge(k, "0"), Gt(r, "0"))}
	for i := 0; i <= 64; i++ {
		cs = append(cs, Implies(Eq(k, Lit(int64(i))), Eq(r, Pow2(i))))
	}
	c.Assert(And(cs...))
	c.memo[key] = r
	return r
}

// MulHint ties a product of two symbolic terms to an uninterpreted function of its factors,
// so that semantically equal factors give equal products by congruence (the nonlinear
// solver alone often fails to see (x1*y) = (x2*y) from x1 = x2 under ite/array noise).
func (c *Ctx) MulHint(a, b Term) {
	if c.inQuant > 0 {
		return
	}
	if _, ok := isNumeral(a); ok {
		return
	}
	if _, ok := isNumeral(b); ok {
		return
	}
	key := "mulhint:" + a + "|" + b
	if _, ok := c.memo[key]; ok {
		return
	}
	c.memo[key] = "1"
	c.Assert(And(Eq(Mul(a, b), app("mulf", a, b)), Eq(app("mulf", a, b), app("mulf", b, a))))
}
