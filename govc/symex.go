package main

// Forward symbolic execution of go/ssa functions into named proof obligations.

import (
	"os"
	"runtime/debug"
	"fmt"
	"regexp"
	"go/token"
	"go/types"
	"sort"
	"strings"

	"golang.org/x/tools/go/ssa"
)

type Obligation struct {
	Name      string
	Func      string
	Kind      string
	Src       string
	Query     string
	ExpectSat bool     // vacuity / reachability checks: sat is the good answer
	AltQuery  string   // for continuation checks: if Query is unsat, AltQuery (the state before) must be unsat too
	Inputs    []string // SMT names of inputs to extract from a model
	InputDesc []string
	Props     []string
	ConKey    string // contract key (for replay)
	Clause    CExpr  // the clause this obligation checks, when it is a single contract clause
	ModelTerms [][2]string // (description, SMT term) pairs to read from a model
}

type State struct {
	reach Term
	heaps map[string]Term
	alloc Term
}

func (s *State) clone() *State {
	h := make(map[string]Term, len(s.heaps))
	for k, v := range s.heaps {
		h[k] = v
	}
	return &State{reach: s.reach, heaps: h, alloc: s.alloc}
}

type exitRec struct {
	st      *State
	results []Val
	what    string
	nDefers int  // number of deferred calls registered when the panic was raised
	ptyp    Term // dynamic type id of the panic value, when known
	final   bool // panic raised while running deferred calls: not handled again
	blk     *ssa.BasicBlock
}

type FnExec struct {
	eng    *Engine
	fn     *ssa.Function
	con    *Contract
	ctx    *Ctx
	mem    *Mem
	vals   map[ssa.Value]Val
	out    map[*ssa.BasicBlock]*State
	edge   map[[2]int]Term
	obls   []*Obligation
	rets   []exitRec
	panics []exitRec
	entry  *State
	params []TVal
	errs   []string
	heapBool map[string]bool
	callN  int
	inputs []string
	inputDesc []string
	loopOrd map[*ssa.BasicBlock]int
	backEdge map[[2]int]bool
	headerSt map[*ssa.BasicBlock]*State // state at loop header after havoc (for frame of loop modifies)
	nameAt  map[string][]ssa.Value // DebugRef-based variable naming
	defers []*ssa.Defer
	deferStack []deferred
	havocked bool
	inDefers bool
	curBindings []ssa.Value
	curArgs []Val
	callReach []callReachRec
	assertHit map[int]bool
	locals []localAlloc // non-escaping stack variables: callees cannot touch them
	ownedRegions []*ownedRegion
	prov        map[Term]*ownedRegion
	inTypedArgs bool
	quants   []quantFact
	idxTerms []Term
	sliceOffs []Term
	idxSeen  map[Term]bool
	havocPtrs []havocPtr // values written by a havoc whose addresses still have to be placed below the allocation frontier
	freshObjs []*freshObj // objects allocated for this function (fresh results) whose address has not escaped
	derived map[Term]Term // field/element address -> base address it was derived from
	oblNames map[string]int
	usedG map[string]bool
	modelTerms [][2]string
	ptrLeaves map[ssa.Value][]Leaf // pointers to struct fields: the heaps their target lives in
	nonNil map[Term]bool
}

type callReachRec struct {
	name          string
	before, after Term
}

type freshObj struct {
	addr    Term
	t       types.Type
	escaped bool
}

// noteEscape: a value handed to code we know nothing about; fresh objects it points to
// (directly or through a field address) can be modified from then on.
func (x *FnExec) noteEscape(v Val) {
	if len(x.freshObjs) == 0 && len(x.ownedRegions) == 0 {
		return
	}
	for _, l := range v.Flatten() {
		if l.B {
			continue
		}
		if !x.inTypedArgs {
			if r := x.provOf(l.T); r != nil {
				r.escaped = true
			}
		}
		t := l.T
		for i := 0; i < 8; i++ {
			for _, o := range x.freshObjs {
				if o.addr == t {
					o.escaped = true
				}
			}
			for _, o := range x.ownedRegions {
				if o.base == t {
					o.escaped = true
				}
			}
			b, ok := x.derived[t]
			if !ok {
				break
			}
			t = b
		}
	}
}

// Quantifier instantiation help. For a closed formula Q = (forall j. B(j)) met anywhere in a
// contract, (Q => B(t)) is valid for every integer term t, and (Q or not B(sk)) with a fresh
// constant sk is conservative (sk names a counterexample if there is one). Both are asserted,
// for t ranging over the index terms of the function (slice/array indices, range counters) and
// the skolem constants of the other quantified formulas, so that the solver does not depend on
// e-matching through linear arithmetic. Sound in hypothesis and goal position alike.
type quantFact struct {
	q, bv, body Term
}

func substVar(body, bv, t Term) Term {
	var b strings.Builder
	i := 0
	for i < len(body) {
		j := strings.Index(body[i:], bv)
		if j < 0 {
			b.WriteString(body[i:])
			break
		}
		j += i
		end := j + len(bv)
		okBefore := j == 0 || !isSymChar(body[j-1])
		okAfter := end >= len(body) || !isSymChar(body[end])
		b.WriteString(body[i:j])
		if okBefore && okAfter {
			b.WriteString(t)
		} else {
			b.WriteString(bv)
		}
		i = end
	}
	return b.String()
}

func isSymChar(c byte) bool {
	return c == '_' || c == '!' || c == '.' || c == '$' || (c >= '0' && c <= '9') || (c >= 'a' && c <= 'z') || (c >= 'A' && c <= 'Z')
}

func (x *FnExec) registerQuant(q, bv, body Term) {
	if len(x.quants) >= 40 {
		return
	}
	sk := x.ctx.Fresh("qsk", SInt)
	x.ctx.Assert(Or(q, Not(substVar(body, bv, sk))))
	for _, t := range x.idxTerms {
		x.ctx.Assert(Implies(q, substVar(body, bv, t)))
		for _, o := range x.sliceOffs {
			x.ctx.Assert(Implies(q, substVar(body, bv, Add(o, t))))
		}
	}
	x.quants = append(x.quants, quantFact{q, bv, body})
	x.addIdxTerm(sk)
}

func (x *FnExec) addIdxTerm(t Term) {
	if x.idxSeen == nil {
		x.idxSeen = map[Term]bool{}
	}
	if x.idxSeen[t] || len(x.idxTerms) >= 60 {
		return
	}
	x.idxSeen[t] = true
	x.idxTerms = append(x.idxTerms, t)
	for _, f := range x.quants {
		x.ctx.Assert(Implies(f.q, substVar(f.body, f.bv, t)))
		for _, o := range x.sliceOffs {
			x.ctx.Assert(Implies(f.q, substVar(f.body, f.bv, Add(o, t))))
		}
	}
}

// addSliceOffset: s[lo:] re-bases indices; facts about s are also instantiated at lo + t.
func (x *FnExec) addSliceOffset(o Term) {
	if _, isNum := isNumeral(o); isNum && o == "0" {
		return
	}
	for _, e := range x.sliceOffs {
		if e == o {
			return
		}
	}
	if len(x.sliceOffs) >= 6 {
		return
	}
	x.sliceOffs = append(x.sliceOffs, o)
	for _, f := range x.quants {
		for _, t := range x.idxTerms {
			x.ctx.Assert(Implies(f.q, substVar(f.body, f.bv, Add(o, t))))
		}
	}
}

// ownedRegion: the backing array of a slice parameter declared with 'owns'.
type ownedRegion struct {
	base, end Term
	elem      types.Type
	escaped   bool
	graph     bool            // everything a callee allocated for its result (owned(res)): all heaps, addresses [base,end)
	skipKeys  map[string]bool // heaps of pointer-free cells whose addresses were handed to other code
}

// provOf: the owned result graph a pointer term points into, if known (address arithmetic and
// loads from the graph keep the provenance)
func (x *FnExec) provOf(t Term) *ownedRegion {
	for i := 0; i < 10; i++ {
		if r, ok := x.prov[t]; ok {
			return r
		}
		b, ok := x.derived[t]
		if !ok {
			return nil
		}
		t = b
	}
	return nil
}

// pointerFree: values of t contain no addresses (so handing out a pointer to a t exposes
// only cells of the returned heap keys)
func (x *FnExec) pointerFree(t types.Type) ([]string, bool) {
	var keys []string
	for _, l := range x.mem.Leaves(t) {
		if l.IsPtr {
			return nil, false
		}
		keys = append(keys, l.Key)
	}
	return keys, true
}

// regionEscapeTyped: a value of static type t is handed to other code (call argument).
func (x *FnExec) regionEscapeTyped(v Val, t types.Type) {
	if len(x.prov) == 0 || t == nil {
		return
	}
	if tup, ok := t.(*types.Tuple); ok {
		if v.IsComp() && len(v.F) == tup.Len() {
			for i := 0; i < tup.Len(); i++ {
				x.regionEscapeTyped(v.F[i], tup.At(i).Type())
			}
		}
		return
	}
	if isOpaque(t) {
		return
	}
	switch u := t.Underlying().(type) {
	case *types.Slice:
		if v.IsComp() && len(v.F) == 3 {
			if r := x.provOf(v.F[0].T); r != nil {
				if keys, ok := x.pointerFree(u.Elem()); ok {
					for _, k := range keys {
						r.skipKeys[k] = true
					}
				} else {
					r.escaped = true
				}
			}
		}
	case *types.Pointer:
		if !v.IsComp() {
			if r := x.provOf(v.T); r != nil {
				if keys, ok := x.pointerFree(u.Elem()); ok {
					for _, k := range keys {
						r.skipKeys[k] = true
					}
				} else {
					r.escaped = true
				}
			}
		}
	case *types.Struct:
		if v.IsComp() && len(v.F) == u.NumFields() {
			for i := 0; i < u.NumFields(); i++ {
				x.regionEscapeTyped(v.F[i], u.Field(i).Type())
			}
		}
	default:
		for _, l := range v.Flatten() {
			if !l.B {
				if r := x.provOf(l.T); r != nil {
					r.escaped = true
				}
			}
		}
	}
}

func resultsPointerFree(m *Mem, sig *types.Signature) bool {
	for i := 0; i < sig.Results().Len(); i++ {
		for _, l := range m.Leaves(sig.Results().At(i).Type()) {
			if l.IsPtr {
				return false
			}
		}
	}
	return true
}

// restoreOwned: after a havoc (callee or loop cut) owned regions that were never handed out and
// (with int_values_immutable) the big integers behind math.Int values keep their content.
func (x *FnExec) restoreOwned(st *State, old map[string]Term) {
	for _, o := range x.ownedRegions {
		if o.escaped || !o.graph {
			continue
		}
		for _, k := range sortedKeys(old) {
			if strings.HasPrefix(k, "ghost:") || o.skipKeys[k] {
				continue
			}
			ob := old[k]
			cur, ok := st.heaps[k]
			if !ok || cur == ob || strings.HasPrefix(k, "map") {
				continue
			}
			x.ctx.Assert(fmt.Sprintf("(forall ((a Int)) (! (=> (and (<= %s a) (< a %s)) (= (select %s a) (select %s a))) :pattern ((select %s a))))", o.base, o.end, cur, ob, cur))
		}
	}
	for _, o := range x.ownedRegions {
		if o.escaped || o.graph {
			continue
		}
		seen := map[string]bool{}
		for _, leaf := range x.mem.Leaves(o.elem) {
			if seen[leaf.Key] {
				continue
			}
			seen[leaf.Key] = true
			ob, ok := old[leaf.Key]
			if !ok {
				continue
			}
			cur, ok := st.heaps[leaf.Key]
			if !ok || cur == ob {
				continue
			}
			x.ctx.Assert(fmt.Sprintf("(forall ((a Int)) (! (=> (and (<= %s a) (< a %s)) (= (select %s a) (select %s a))) :pattern ((select %s a))))", o.base, o.end, cur, ob, cur))
		}
	}
	if x.con == nil || !x.con.IntImmutable {
		return
	}
	ob, ok := old["Big"]
	if !ok {
		return
	}
	cur, ok := st.heaps["Big"]
	if !ok || cur == ob {
		return
	}
	seen := map[Term]bool{}
	var refs []Term
	add := func(v ssa.Value) {
		val, ok := x.vals[v]
		if !ok {
			return
		}
		var rs []Term
		intRefs(val, v.Type(), &rs)
		for _, r := range rs {
			if !seen[r] {
				seen[r] = true
				refs = append(refs, r)
			}
		}
	}
	for _, p := range x.fn.Params {
		add(p)
	}
	for _, fv := range x.fn.FreeVars {
		add(fv)
	}
	for _, b := range x.fn.Blocks {
		for _, in := range b.Instrs {
			if v, ok := in.(ssa.Value); ok {
				add(v)
			}
		}
	}
	// Ints stored in this function's own stack variables
	for _, l := range x.locals {
		offs := intRefOffsets(x.mem, l.t)
		for _, off := range offs {
			key := x.mem.Leaves(l.t)[off].Key
			h, ok := st.heaps[key]
			if !ok {
				continue
			}
			r := Sel(h, Add(l.addr, Lit(int64(off))))
			if !seen[r] {
				seen[r] = true
				refs = append(refs, r)
			}
		}
	}
	if len(refs) == 0 {
		return
	}
	for _, r := range refs {
		cur = Sto(cur, r, Sel(ob, r))
	}
	st.heaps["Big"] = x.ctx.Define("H_Big", SArrI, cur)
}

const sdkIntKey = "cosmossdk.io/math.Int"

// decImmutable: set per function (contract clause dec_values_immutable): the assumption of
// int_values_immutable is extended to LegacyDec and BigDec values the function holds (callees do
// not call the *Mut methods on values they were handed).
var decImmutable bool

func isImmutableNumKey(k string) bool {
	if k == sdkIntKey {
		return true
	}
	return decImmutable && (k == "cosmossdk.io/math.LegacyDec" || k == "github.com/osmosis-labs/osmosis/osmomath.BigDec")
}

// intRefs: the *big.Int pointers of the math.Int values inside v (structs and tuples are
// searched, pointers and slices are not followed).
func intRefs(v Val, t types.Type, out *[]Term) {
	if t == nil {
		return
	}
	if tup, ok := t.(*types.Tuple); ok {
		if v.IsComp() && len(v.F) == tup.Len() {
			for i := 0; i < tup.Len(); i++ {
				intRefs(v.F[i], tup.At(i).Type(), out)
			}
		}
		return
	}
	if isOpaque(t) {
		return
	}
	st, ok := t.Underlying().(*types.Struct)
	if !ok || !v.IsComp() || len(v.F) != st.NumFields() {
		return
	}
	if isImmutableNumKey(typeKey(t)) && st.NumFields() == 1 && !v.F[0].IsComp() {
		*out = append(*out, v.F[0].T)
		return
	}
	for i := 0; i < st.NumFields(); i++ {
		intRefs(v.F[i], st.Field(i).Type(), out)
	}
}

// intRefOffsets: leaf offsets inside a value of type t that hold the pointer of a math.Int.
func intRefOffsets(m *Mem, t types.Type) []int {
	var out []int
	var walk func(t types.Type, base int)
	walk = func(t types.Type, base int) {
		if isOpaque(t) {
			return
		}
		st, ok := t.Underlying().(*types.Struct)
		if !ok {
			return
		}
		if isImmutableNumKey(typeKey(t)) && st.NumFields() == 1 {
			out = append(out, base)
			return
		}
		for i := 0; i < st.NumFields(); i++ {
			walk(st.Field(i).Type(), base+m.FieldOffset(t, i))
		}
	}
	walk(t, 0)
	return out
}

type localAlloc struct {
	instr *ssa.Alloc
	addr  Term
	t     types.Type
}

type deferred struct {
	instr *ssa.Defer
	args  []Val
	reach Term
}

func (x *FnExec) errorf(f string, a ...any) {
	x.errs = append(x.errs, fmt.Sprintf(f, a...))
}

func (x *FnExec) initHeap(key string, isBool bool) Term {
	sortS := SArrI
	if isBool {
		sortS = SArrB
	}
	if strings.HasPrefix(key, "map:") {
		if isBool {
			sortS = "(Array Int (Array Int Bool))"
		} else {
			sortS = "(Array Int (Array Int Int))"
		}
	}
	if strings.HasPrefix(key, "mapin:") {
		sortS = "(Array Int (Array Int Bool))"
	}
	x.heapBool[key] = isBool
	return x.ctx.Named("H0_"+key, sortS)
}

func (x *FnExec) mapHeap(h map[string]Term, key string, isBool bool) Term {
	if t, ok := h[key]; ok {
		return t
	}
	return x.initHeap(key, isBool)
}

func (x *FnExec) heapSort(key string) string {
	if strings.HasPrefix(key, "map:") {
		if x.heapBool[key] {
			return "(Array Int (Array Int Bool))"
		}
		return "(Array Int (Array Int Int))"
	}
	if strings.HasPrefix(key, "mapin:") {
		return "(Array Int (Array Int Bool))"
	}
	if x.heapBool[key] {
		return SArrB
	}
	return SArrI
}

func (x *FnExec) getHeap(st *State, key string, isBool bool) Term {
	if t, ok := st.heaps[key]; ok {
		return t
	}
	return x.initHeap(key, isBool)
}

func (x *FnExec) strConst(s string) Term {
	key := "str:" + s
	if t, ok := x.ctx.memo[key]; ok {
		return t
	}
	// distinct string constants are distinct positive ids; the empty string is 0
	if s == "" {
		x.ctx.memo[key] = "0"
		return "0"
	}
	id := x.eng.strID(s)
	t := Lit(int64(id))
	x.ctx.memo[key] = t
	return t
}

func (x *FnExec) globalAddr(g *ssa.Global) Term {
	return Lit(int64(x.eng.globalAddr(g, x.mem)))
}

// ---------- loading / storing ----------

func (x *FnExec) load(st *State, addr Term, t types.Type) Val {
	return x.loadL(st, addr, t, x.mem.Leaves(t))
}

func (x *FnExec) loadL(st *State, addr Term, t types.Type, leaves []Leaf) Val {
	flat := make([]Val, len(leaves))
	for i, l := range leaves {
		a := addr
		if i > 0 {
			a = Add(addr, Lit(int64(i)))
		}
		h := x.getHeap(st, l.Key, l.Bool)
		term := x.ctx.Define("ld", pick(l.Bool), Sel(h, a))
		if l.Bool {
			flat[i] = BoolV(term)
		} else {
			flat[i] = IntV(term)
			if l.IsPtr && len(x.prov) > 0 {
				if r := x.provOf(addr); r != nil && r.graph {
					// pointers inside an owned result graph point into the graph (or are nil)
					x.prov[term] = r
					x.ctx.Assert(Or(Eq(term, "0"), And(Ge(term, r.base), Lt(term, r.end))))
				}
			}
			if l.IsPtr {
				// well-formedness of the entry heap, instantiated at this address:
				// pointers stored in pre-existing objects point to pre-existing objects
				h0 := x.initHeap(l.Key, false)
				x.ctx.Assert(Implies(And(Ge(a, "0"), Lt(a, x.entry.alloc)), And(Ge(Sel(h0, a), "0"), Lt(Sel(h0, a), x.entry.alloc))))
			}
		}
	}
	v := x.mem.Shape(t, flat)
	if len(x.prov) > 0 {
		if r := x.provOf(addr); r != nil && r.graph {
			x.regionShape(v, t, r)
		}
	}
	// well-formedness of the entry heap for slices and pointers stored in pre-existing objects:
	// the whole backing array / referent lies in pre-existing memory
	x.entryHeapShape(addr, t, leaves)
	// Go's type safety: whatever is stored in memory at a location of type t is a value of t
	// (integer ranges, 0 <= len <= cap of slices, non-negative addresses)
	if inv := x.typeInv(v, t, nil); inv != "true" {
		x.ctx.Assert(inv)
	}
	// ... and memory holds only addresses of objects that exist: below the allocation frontier
	// at the time of the load (so never equal to anything allocated afterwards)
	for _, c := range x.existsBelow(v, t, st.alloc) {
		x.ctx.Assert(c)
	}
	return v
}

// regionShape: slices and pointers stored inside an owned result graph refer to whole objects
// inside the graph.
func (x *FnExec) regionShape(v Val, t types.Type, r *ownedRegion) {
	for _, c := range x.regionShapeTerms(v, t, r) {
		x.ctx.Assert(c)
	}
}

// existsBelow: slices and pointers in a value refer to whole objects below the frontier `end`
// (no provenance is recorded).
func (x *FnExec) existsBelow(v Val, t types.Type, end Term) []Term {
	var out []Term
	var walk func(v Val, t types.Type)
	walk = func(v Val, t types.Type) {
		if isOpaque(t) {
			return
		}
		switch u := t.Underlying().(type) {
		case *types.Slice:
			if v.IsComp() && len(v.F) == 3 {
				sz := x.mem.Size(u.Elem())
				p, c := v.F[0].T, v.F[2].T
				out = append(out, Or(Eq(p, "0"), Le(Add(p, Mul(c, Lit(int64(sz)))), end)))
			}
		case *types.Pointer:
			if !v.IsComp() {
				out = append(out, Or(Eq(v.T, "0"), Le(Add(v.T, Lit(int64(x.mem.Size(u.Elem())))), end)))
			}
		case *types.Struct:
			if v.IsComp() && len(v.F) == u.NumFields() {
				for i := 0; i < u.NumFields(); i++ {
					walk(v.F[i], u.Field(i).Type())
				}
			}
		}
	}
	walk(v, t)
	return out
}

func (x *FnExec) regionShapeTerms(v Val, t types.Type, r *ownedRegion) []Term {
	var out []Term
	var walk func(v Val, t types.Type)
	walk = func(v Val, t types.Type) {
		if isOpaque(t) {
			return
		}
		switch u := t.Underlying().(type) {
		case *types.Slice:
			if v.IsComp() && len(v.F) == 3 {
				sz := x.mem.Size(u.Elem())
				p, c := v.F[0].T, v.F[2].T
				x.prov[p] = r
				out = append(out, Or(Eq(p, "0"), And(Ge(p, r.base), Le(Add(p, Mul(c, Lit(int64(sz)))), r.end))))
			}
		case *types.Pointer:
			if !v.IsComp() {
				x.prov[v.T] = r
				out = append(out, Or(Eq(v.T, "0"), And(Ge(v.T, r.base), Le(Add(v.T, Lit(int64(x.mem.Size(u.Elem())))), r.end))))
			}
		case *types.Struct:
			if v.IsComp() && len(v.F) == u.NumFields() {
				for i := 0; i < u.NumFields(); i++ {
					walk(v.F[i], u.Field(i).Type())
				}
			}
		}
	}
	walk(v, t)
	return out
}

func (x *FnExec) entryHeapShape(addr Term, t types.Type, leaves []Leaf) {
	pre := And(Ge(addr, "0"), Lt(addr, x.entry.alloc))
	var walk func(t types.Type, off int)
	walk = func(t types.Type, off int) {
		if isOpaque(t) || off >= len(leaves) {
			return
		}
		switch u := t.Underlying().(type) {
		case *types.Slice:
			if off+2 >= len(leaves) {
				return
			}
			sz := x.mem.Size(u.Elem())
			hp := x.initHeap(leaves[off].Key, false)
			hc := x.initHeap(leaves[off+2].Key, false)
			p := Sel(hp, Add(addr, Lit(int64(off))))
			c := Sel(hc, Add(addr, Lit(int64(off+2))))
			x.ctx.Assert(Implies(pre, Le(Add(p, Mul(c, Lit(int64(sz)))), x.entry.alloc)))
		case *types.Pointer:
			if sz := x.mem.Size(u.Elem()); sz > 1 {
				hp := x.initHeap(leaves[off].Key, false)
				p := Sel(hp, Add(addr, Lit(int64(off))))
				x.ctx.Assert(Implies(pre, Le(Add(p, Lit(int64(sz))), x.entry.alloc)))
			}
		case *types.Struct:
			o := off
			for i := 0; i < u.NumFields(); i++ {
				walk(u.Field(i).Type(), o)
				o += len(x.mem.Leaves(u.Field(i).Type()))
			}
		}
	}
	walk(t, 0)
}

func pick(b bool) string {
	if b {
		return SBool
	}
	return SInt
}

func (x *FnExec) store(st *State, addr Term, t types.Type, v Val) {
	x.storeL(st, addr, t, v, x.mem.Leaves(t))
}

func (x *FnExec) storeL(st *State, addr Term, t types.Type, v Val, leaves []Leaf) {
	flat := v.Flatten()
	if len(flat) != len(leaves) {
		x.errorf("store: shape mismatch for %s (%d vs %d)", t, len(flat), len(leaves))
		return
	}
	for i, l := range leaves {
		a := addr
		if i > 0 {
			a = Add(addr, Lit(int64(i)))
		}
		h := x.getHeap(st, l.Key, l.Bool)
		st.heaps[l.Key] = x.ctx.Define("H_"+l.Key, x.heapSort(l.Key), Sto(h, a, flat[i].T))
	}
}

func (x *FnExec) zero(t types.Type) Val {
	leaves := x.mem.Leaves(t)
	flat := make([]Val, len(leaves))
	for i, l := range leaves {
		if l.Bool {
			flat[i] = BoolV("false")
		} else {
			flat[i] = IntV("0")
		}
	}
	return x.mem.Shape(t, flat)
}

// fresh value of a type; constraints=true adds range facts for machine integers.
func (x *FnExec) freshVal(prefix string, t types.Type, constrain bool) Val {
	leaves := x.mem.Leaves(t)
	flat := make([]Val, len(leaves))
	for i, l := range leaves {
		n := x.ctx.Fresh(prefix, pick(l.Bool))
		if l.Bool {
			flat[i] = BoolV(n)
		} else {
			flat[i] = IntV(n)
		}
	}
	v := x.mem.Shape(t, flat)
	if constrain {
		x.ctx.Assert(x.typeInv(v, t, nil))
	}
	return v
}

// typeInv: facts true of every Go value of type t (machine integer ranges, slice
// header sanity, interface nil convention). allocBound, when non-nil, also bounds
// pointers below the allocation frontier (used for function inputs).
func (x *FnExec) typeInv(v Val, t types.Type, allocBound *Term) Term {
	var cs []Term
	var walk func(v Val, t types.Type)
	walk = func(v Val, t types.Type) {
		if isOpaque(t) {
			return
		}
		switch u := t.Underlying().(type) {
		case *types.Basic:
			if lo, hi, ok := intRange(t); ok {
				cs = append(cs, Le(lo, v.T), Le(v.T, hi))
			}
			if u.Info()&types.IsString != 0 {
				cs = append(cs, Ge(v.T, "0"))
			}
		case *types.Pointer, *types.Map, *types.Chan, *types.Signature:
			cs = append(cs, Ge(v.T, "0"))
			if allocBound != nil {
				cs = append(cs, Lt(v.T, *allocBound))
				// the whole referent lies in pre-existing memory, not just its first cell
				if p, ok := u.(*types.Pointer); ok {
					if sz := x.mem.Size(p.Elem()); sz > 1 {
						cs = append(cs, Le(Add(v.T, Lit(int64(sz))), *allocBound))
					}
				}
			}
		case *types.Slice:
			sz := x.mem.Size(u.Elem())
			p, l, c := v.F[0].T, v.F[1].T, v.F[2].T
			cs = append(cs, Ge(p, "0"), Ge(l, "0"), Ge(c, l), Le(c, "4611686018427387904"),
				Implies(Eq(p, "0"), Eq(c, "0")))
			if allocBound != nil {
				cs = append(cs, Le(Add(p, Mul(c, Lit(int64(sz)))), *allocBound))
			}
		case *types.Interface:
			cs = append(cs, Ge(v.F[0].T, "0"), Implies(Eq(v.F[0].T, "0"), Eq(v.F[1].T, "0")))
		case *types.Struct:
			for i := 0; i < u.NumFields(); i++ {
				walk(v.F[i], u.Field(i).Type())
			}
		case *types.Tuple:
			for i := 0; i < u.Len(); i++ {
				walk(v.F[i], u.At(i).Type())
			}
		case *types.Array:
			if v.IsComp() {
				for i := range v.F {
					walk(v.F[i], u.Elem())
				}
			}
		}
	}
	walk(v, t)
	return And(cs...)
}

// ---------- obligations ----------

func (x *FnExec) uniqueName(name string) string {
	if x.oblNames == nil {
		x.oblNames = map[string]int{}
	}
	x.oblNames[name]++
	if n := x.oblNames[name]; n > 1 {
		return fmt.Sprintf("%s~%d", name, n)
	}
	return name
}

func (x *FnExec) oblige(name, kind, src string, reach Term, goal Term) {
	name = x.uniqueName(name)
	q := x.queryPrefix() + "(assert " + reach + ")\n(assert " + Not(goal) + ")\n"
	if goal == "true" {
		q = "(assert false)\n" // nothing to prove: keep the obligation (and its claim), not the context
	}
	x.obls = append(x.obls, &Obligation{Name: x.fnName() + "#" + name, Func: x.fnName(), Kind: kind, Src: src, Query: q,
		Inputs: append([]string(nil), x.inputs...), InputDesc: append([]string(nil), x.inputDesc...)})
}

func (x *FnExec) obligeSat(name, kind, src string, reach Term) {
	name = x.uniqueName(name)
	q := x.queryPrefix() + "(assert " + reach + ")\n"
	x.obls = append(x.obls, &Obligation{Name: x.fnName() + "#" + name, Func: x.fnName(), Kind: kind, Src: src, Query: q, ExpectSat: true,
		Inputs: append([]string(nil), x.inputs...), InputDesc: append([]string(nil), x.inputDesc...)})
}

func (x *FnExec) queryPrefix() string {
	return prelude + strings.Join(x.ctx.lines, "\n") + "\n"
}

func (x *FnExec) fnName() string {
	return shortName(x.fn.String())
}

var reOsmoPrefix = regexp.MustCompile(`github\.com/osmosis-labs/osmosis/(v\d+/)?`)

func shortName(s string) string {
	return reOsmoPrefix.ReplaceAllString(s, "")
}

// ---------- environment for contract clauses ----------

func (x *FnExec) envFor(con *Contract, fn *ssa.Function, args []Val, results []Val, cur, old map[string]Term, alloc0 Term) *Env {
	env := &Env{x: x, vars: map[string]TVal{}, heaps: cur, old: old, alloc0: alloc0, errs: &x.errs}
	if fn != nil && fn.Pkg != nil {
		env.pkg = fn.Pkg
	} else if fn != nil && fn.Parent() != nil {
		env.pkg = fn.Parent().Pkg
	}
	sig := fn.Signature
	var ptypes []types.Type
	if sig.Recv() != nil {
		ptypes = append(ptypes, sig.Recv().Type())
	}
	// closures: free variables are not nameable as parameters; they resolve by name below
	for i := 0; i < sig.Params().Len(); i++ {
		ptypes = append(ptypes, sig.Params().At(i).Type())
	}
	if len(con.Params) != len(ptypes) {
		x.errorf("contract %s: %d parameter names for %d parameters", con.Key, len(con.Params), len(ptypes))
	}
	for i, n := range con.Params {
		if i < len(args) && i < len(ptypes) && n != "_" {
			env.vars[n] = TVal{args[i], ptypes[i]}
		}
	}
	if results != nil {
		rs := sig.Results()
		if len(con.Results) > 0 && len(con.Results) != rs.Len() {
			x.errorf("contract %s: %d result names for %d results", con.Key, len(con.Results), rs.Len())
		}
		for i := 0; i < rs.Len() && i < len(results); i++ {
			if i < len(con.Results) && con.Results[i] != "_" {
				env.vars[con.Results[i]] = TVal{results[i], rs.At(i).Type()}
			}
		}
		if rs.Len() == 1 && len(results) == 1 {
			if _, taken := env.vars["result"]; !taken {
				env.vars["result"] = TVal{results[0], rs.At(0).Type()}
			}
		}
	}
	env.lets = map[string]CExpr{}
	for _, l := range con.Lets {
		env.lets[l.Name] = l.E
	}
	if fn == x.fn {
		x.addFreeVarNames(env)
	}
	return env
}

// ---------- running one function ----------

func (e *Engine) VerifyFunction(fn *ssa.Function, con *Contract) (obls []*Obligation, errs []string, notes []string) {
	x := &FnExec{eng: e, fn: fn, con: con, ctx: NewCtx(), mem: e.mem, vals: map[ssa.Value]Val{},
		out: map[*ssa.BasicBlock]*State{}, edge: map[[2]int]Term{}, heapBool: map[string]bool{},
		loopOrd: map[*ssa.BasicBlock]int{}, backEdge: map[[2]int]bool{}, headerSt: map[*ssa.BasicBlock]*State{},
		nameAt: map[string][]ssa.Value{}, derived: map[Term]Term{}, assertHit: map[int]bool{}, ptrLeaves: map[ssa.Value][]Leaf{}, nonNil: map[Term]bool{}}
	x.ctx.pow10Max = con.Pow10Max
	defer func() {
		if r := recover(); r != nil {
			errs = append(x.errs, fmt.Sprintf("internal error in %s: %v", fn.String(), r))
			if os.Getenv("GOVC_DEBUG") != "" {
				fmt.Fprintf(os.Stderr, "%s\n", debug.Stack())
			}
			obls = nil
		}
	}()
	x.run()
	for _, o := range x.obls {
		o.Props = con.Props
		o.ConKey = con.Key
		o.ModelTerms = x.modelTerms
	}
	return x.obls, x.errs, sortedKeys(x.ctx.notes)
}

func (x *FnExec) run() {
	fn := x.fn
	if len(fn.Blocks) == 0 {
		x.errorf("%s has no body", fn.String())
		return
	}
	alloc0 := x.ctx.Named("alloc0", SInt)
	x.ctx.Assert(Gt(alloc0, Lit(int64(x.eng.globalTop()))))
	st := &State{reach: "true", heaps: map[string]Term{}, alloc: alloc0}
	if x.con != nil && (!x.con.ModAll || len(x.con.Modifies) > 0) {
		// a contract that frames the abstract state: "ghost:anyOther" stands for every ghost cell
		// this function never names; a callee that may change all of the abstract state
		// (modifies * without a ghost list) changes it, and the frame obligation then fails
		st.heaps["ghost:anyOther"] = x.initHeap("ghost:anyOther", false)
	}
	x.entry = st.clone()

	// parameters
	var args []Val
	for _, p := range fn.Params {
		v := x.freshVal("in_"+p.Name(), p.Type(), false)
		x.vals[p] = v
		args = append(args, v)
		x.ctx.Assert(x.typeInv(v, p.Type(), &alloc0))
		for i, l := range v.Flatten() {
			x.inputs = append(x.inputs, l.T)
			x.inputDesc = append(x.inputDesc, fmt.Sprintf("%s/%d", p.Name(), i))
		}
		x.addModelTerms(p.Name(), v, p.Type())
	}
	for _, fv := range fn.FreeVars {
		v := x.freshVal("fv_"+fv.Name(), fv.Type(), false)
		x.vals[fv] = v
		x.ctx.Assert(x.typeInv(v, fv.Type(), &alloc0))
		if _, isPtr := fv.Type().(*types.Pointer); isPtr {
			x.ctx.Assert(Gt(v.T, "0")) // a captured variable's cell exists
		}
	}
	env := x.envFor(x.con, fn, args, nil, st.heaps, st.heaps, alloc0)
	x.addFreeVarNames(env)
	// preconditions: requires + global invariants
	var pre []Term
	for _, r := range x.con.Requires {
		pre = append(pre, env.EvalBool(r.E))
	}
	pre = append(pre, x.globalInvs(env)...)
	pre = append(pre, x.implicitModPre(x.con, env)...)
	pre = append(pre, x.lemmaInstances(env)...)
	if x.usesRecoverOrDefer() {
		pre = append(pre, Eq(Sel(x.initHeap("ghost:panicking", false), "0"), "0"))
	}
	reach0 := x.ctx.Define("R_entry", SBool, And(pre...))
	st.reach = reach0
	x.obligeSat("vacuity", "vacuity", "requires and global invariants are satisfiable", reach0)

	for _, own := range x.con.Owns {
		if tv, ok := env.vars[own]; ok && tv.T != nil {
			if p, ok := tv.T.Underlying().(*types.Pointer); ok {
				x.freshObjs = append(x.freshObjs, &freshObj{addr: tv.V.T, t: p.Elem()})
				x.ctx.Note("assumed: the object " + own + " points to is not aliased by keeper state: callees that are not handed its address do not modify it")
				continue
			}
		}
		if tv, ok := env.vars[own]; ok && tv.T != nil {
			if sl, ok := tv.T.Underlying().(*types.Slice); ok && tv.V.IsComp() && len(tv.V.F) == 3 {
				sz := x.mem.Size(sl.Elem())
				x.ownedRegions = append(x.ownedRegions, &ownedRegion{base: tv.V.F[0].T, end: Add(tv.V.F[0].T, Mul(tv.V.F[2].T, Lit(int64(sz)))), elem: sl.Elem()})
				x.ctx.Note("assumed: the backing array of " + own + " is not aliased by keeper state: callees that are not handed the slice do not modify it")
				continue
			}
		}
		x.errorf("owns %s: not a pointer or slice parameter", own)
	}
	decImmutable = x.con.DecImmutable
	if x.con.DecImmutable {
		x.ctx.Note("assumed (dec_values_immutable): callees never mutate the big integer behind a LegacyDec/BigDec value held by this function (no *Mut call on a value they were handed)")
	}
	if x.con.IntImmutable {
		x.ctx.Note("assumed (int_values_immutable): callees never mutate the big integer behind a cosmossdk.io/math.Int value held by this function (the Int API is value-immutable)")
	}
	x.collectDebugNames()
	x.findLoops()
	order := x.blockOrder()
	for _, b := range order {
		x.execBlock(b, st)
	}
	x.finish(args)
}

func (x *FnExec) addFreeVarNames(env *Env) {
	env.refOf = func(name string) (TVal, bool) {
		for _, fv := range x.fn.FreeVars {
			if fv.Name() == name {
				return TVal{x.vals[fv], fv.Type()}, true
			}
		}
		return TVal{}, false
	}
	for _, fv := range x.fn.FreeVars {
		fv := fv
		// free variables are pointers to the captured variable
		if p, ok := fv.Type().(*types.Pointer); ok {
			name := fv.Name()
			prev := env.resolver
			env.resolver = func(n string) (TVal, bool) {
				if n == name {
					return TVal{env.load(x.vals[fv].T, p.Elem()), p.Elem()}, true
				}
				if prev != nil {
					return prev(n)
				}
				return TVal{}, false
			}
		}
	}
}

func (x *FnExec) globalInvs(env *Env) []Term {
	var out []Term
	used := x.usedGlobals()
	for _, pkgPath := range sortedKeys(x.eng.cs.Globals) {
		for _, g := range x.eng.cs.Globals[pkgPath] {
			if !used[pkgPath+"."+g.Name] {
				continue
			}
			sub := *env
			sub.pkg = x.eng.ssaPkg(pkgPath)
			if sub.pkg == nil {
				continue
			}
			sub.vars = map[string]TVal{}
			sub.resolver = nil
			out = append(out, sub.EvalBool(g.Inv.E))
			// the global's value is a well-formed pre-existing value
			if tv, ok := sub.lookup(g.Name); ok && tv.T != nil {
				a0 := x.entry.alloc
				out = append(out, x.typeInv(tv.V, tv.T, &a0))
			}
		}
	}
	return out
}

// implicitModPre: locations a contract may modify are never the referents of
// immutable globals of the same package.
func (x *FnExec) implicitModPre(con *Contract, env *Env) []Term {
	var out []Term
	if env.pkg == nil {
		return nil
	}
	var imm []Term
	used := x.usedGlobals()
	for _, pkgPath := range sortedKeys(x.eng.cs.Globals) {
		for _, g := range x.eng.cs.Globals[pkgPath] {
			if !g.Immutable || !used[pkgPath+"."+g.Name] {
				continue
			}
			sub := *env
			sub.pkg = x.eng.ssaPkg(pkgPath)
			if sub.pkg == nil {
				continue
			}
			sub.vars = map[string]TVal{}
			sub.resolver = nil
			tv, ok := sub.lookup(g.Name)
			if !ok {
				continue
			}
			if r, ok := bigRef(tv); ok {
				imm = append(imm, r)
			}
		}
	}
	if len(imm) == 0 {
		return nil
	}
	for _, m := range con.Modifies {
		if ix, ok := m.(*CIndex); ok {
			if id, ok := ix.X.(*CIdent); ok && id.Name == "Big" {
				a := env.scalar(env.Eval(ix.I), "modifies")
				for _, g := range imm {
					out = append(out, Not(Eq(a, g)))
				}
			}
		}
	}
	return out
}

// bigRef: the *big.Int address inside a value of type *big.Int or a one-field wrapper.
func bigRef(tv TVal) (Term, bool) {
	t := tv.T
	if t == nil {
		return "", false
	}
	if p, ok := t.Underlying().(*types.Pointer); ok && typeKey(p.Elem()) == "math/big.Int" {
		return tv.V.T, true
	}
	if st, ok := t.Underlying().(*types.Struct); ok && st.NumFields() == 1 && !isOpaque(t) {
		return bigRef(TVal{tv.V.F[0], st.Field(0).Type()})
	}
	return "", false
}

func (x *FnExec) collectDebugNames() {
	for _, b := range x.fn.Blocks {
		for _, in := range b.Instrs {
			if d, ok := in.(*ssa.DebugRef); ok && !d.IsAddr {
				if id, ok := d.Expr.(interface{ String() string }); ok {
					_ = id
				}
				if obj := d.Object(); obj != nil {
					x.nameAt[obj.Name()] = append(x.nameAt[obj.Name()], d.X)
				}
			}
		}
	}
}

func (x *FnExec) findLoops() {
	// back edges: u->v where v dominates u
	type hdr struct {
		b   *ssa.BasicBlock
		pos token.Pos
	}
	var hs []hdr
	seen := map[*ssa.BasicBlock]bool{}
	for _, u := range x.fn.Blocks {
		for _, v := range u.Succs {
			if v.Dominates(u) {
				x.backEdge[[2]int{u.Index, v.Index}] = true
				if !seen[v] {
					seen[v] = true
					hs = append(hs, hdr{v, blockPos(v)})
				}
			}
		}
	}
	sort.SliceStable(hs, func(i, j int) bool {
		if hs[i].pos != hs[j].pos {
			return hs[i].pos < hs[j].pos
		}
		return hs[i].b.Index < hs[j].b.Index
	})
	for i, h := range hs {
		x.loopOrd[h.b] = i + 1
		if os.Getenv("GOVC_DEBUG") != "" {
			fmt.Fprintf(os.Stderr, "loop %d of %s: header block %d at %v\n", i+1, x.fnName(), h.b.Index, x.fn.Prog.Fset.Position(h.pos))
		}
	}
}

func blockPos(b *ssa.BasicBlock) token.Pos {
	best := token.NoPos
	for _, in := range b.Instrs {
		if _, isPhi := in.(*ssa.Phi); isPhi {
			// a phi carries the position of the variable's declaration, which may precede an
			// earlier loop (named results): loops are numbered by their own statements
			continue
		}
		if p := in.Pos(); p != token.NoPos && (best == token.NoPos || p < best) {
			best = p
		}
	}
	if best == token.NoPos {
		// fall back to successors' positions
		for _, s := range b.Succs {
			for _, in := range s.Instrs {
				if _, isPhi := in.(*ssa.Phi); isPhi {
					continue
				}
				if p := in.Pos(); p != token.NoPos && (best == token.NoPos || p < best) {
					best = p
				}
			}
		}
	}
	return best
}

func (x *FnExec) blockOrder() []*ssa.BasicBlock {
	var order []*ssa.BasicBlock
	visited := map[*ssa.BasicBlock]bool{}
	var dfs func(b *ssa.BasicBlock)
	dfs = func(b *ssa.BasicBlock) {
		visited[b] = true
		for _, s := range b.Succs {
			if x.backEdge[[2]int{b.Index, s.Index}] || visited[s] {
				continue
			}
			dfs(s)
		}
		order = append(order, b)
	}
	dfs(x.fn.Blocks[0])
	for i, j := 0, len(order)-1; i < j; i, j = i+1, j-1 {
		order[i], order[j] = order[j], order[i]
	}
	return order
}

// loopBlocks: blocks of the natural loop with the given header.
func (x *FnExec) loopBlocks(h *ssa.BasicBlock) map[*ssa.BasicBlock]bool {
	body := map[*ssa.BasicBlock]bool{h: true}
	var stack []*ssa.BasicBlock
	for _, p := range h.Preds {
		if x.backEdge[[2]int{p.Index, h.Index}] && !body[p] {
			body[p] = true
			stack = append(stack, p)
		}
	}
	for len(stack) > 0 {
		b := stack[len(stack)-1]
		stack = stack[:len(stack)-1]
		for _, p := range b.Preds {
			if !body[p] {
				body[p] = true
				stack = append(stack, p)
			}
		}
	}
	return body
}

func (x *FnExec) execBlock(b *ssa.BasicBlock, entrySt *State) {
	var st *State
	type inc struct {
		p    *ssa.BasicBlock
		cond Term
		st   *State
	}
	var incs []inc
	if b.Index == 0 {
		st = entrySt.clone()
	} else {
		for _, p := range b.Preds {
			if x.backEdge[[2]int{p.Index, b.Index}] {
				continue
			}
			ps, ok := x.out[p]
			if !ok {
				continue
			}
			c, ok := x.edge[[2]int{p.Index, b.Index}]
			if !ok {
				continue
			}
			incs = append(incs, inc{p, x.ctx.Define(fmt.Sprintf("E_%d_%d", p.Index, b.Index), SBool, And(ps.reach, c)), ps})
		}
		if len(incs) == 0 {
			return // unreachable
		}
		st = x.mergeStates(b, len(incs), func(i int) (Term, *State) { return incs[i].cond, incs[i].st })
	}
	_, isHeader := x.loopOrd[b]
	// phis
	phiVals := map[*ssa.Phi]Val{}
	for _, in := range b.Instrs {
		phi, ok := in.(*ssa.Phi)
		if !ok {
			break
		}
		// merged incoming value over forward edges
		var v Val
		first := true
		for i := len(incs) - 1; i >= 0; i-- {
			idx := predIndex(b, incs[i].p)
			ev := x.value(phi.Edges[idx])
			if len(incs) > 1 || isHeader {
				// a merged pointer is a new term: objects tracked by address are given up
				x.noteEscape(ev)
			}
			if first {
				v = ev
				first = false
			} else {
				v = x.iteVal(incs[i].cond, ev, v)
			}
		}
		phiVals[phi] = v
	}
	if isHeader {
		ord := x.loopOrd[b]
		ls := x.con.Loops[ord]
		if ls == nil {
			ls = &LoopSpec{}
			x.ctx.Note(fmt.Sprintf("loop %d of %s has no invariant (true assumed)", ord, x.fnName()))
		}
		// invariant on entry
		for k, inv := range ls.Invariants {
			env := x.loopEnv(b, st, func(p *ssa.Phi) Val { return phiVals[p] })
			x.oblige(fmt.Sprintf("loop%d.inv%d.init", ord, k+1), "loop-init", inv.Src, st.reach, env.EvalBool(inv.E))
		}
		// havoc
		pre := st.clone()
		x.havocLoop(b, st, ls, pre)
		for _, in := range b.Instrs {
			phi, ok := in.(*ssa.Phi)
			if !ok {
				break
			}
			phiVals[phi] = x.freshVal("phi_"+phi.Comment, phi.Type(), true)
		}
		for p, v := range phiVals {
			x.vals[p] = v
		}
		env := x.loopEnv(b, st, func(p *ssa.Phi) Val { return phiVals[p] })
		var invs []Term
		for _, inv := range ls.Invariants {
			invs = append(invs, env.EvalBool(inv.E))
		}
		st.reach = x.ctx.Define(fmt.Sprintf("R_loop%d", ord), SBool, And(st.reach, And(invs...)))
		x.headerSt[b] = st.clone()
		x.obligeSat(fmt.Sprintf("loop%d.reach", ord), "vacuity", "loop invariant is satisfiable", st.reach)
	} else {
		for p, v := range phiVals {
			x.vals[p] = x.nameVal("phi", p.Type(), v)
		}
	}
	for _, in := range b.Instrs {
		if _, ok := in.(*ssa.Phi); ok {
			continue
		}
		if !x.execInstr(b, in, st) {
			break
		}
	}
	x.out[b] = st
}

func predIndex(b, p *ssa.BasicBlock) int {
	for i, q := range b.Preds {
		if q == p {
			return i
		}
	}
	panic("pred not found")
}

func (x *FnExec) nameVal(prefix string, t types.Type, v Val) Val {
	flat := v.Flatten()
	out := make([]Val, len(flat))
	for i, f := range flat {
		out[i] = f
		out[i].T = x.ctx.Define(prefix, pick(f.B), f.T)
	}
	if !v.IsComp() {
		return out[0]
	}
	return x.reshape(v, out)
}

// reshape rebuilds a value with the same structure as like from flat leaves.
func (x *FnExec) reshape(like Val, flat []Val) Val {
	var rec func(l Val) Val
	rec = func(l Val) Val {
		if !l.IsComp() {
			v := flat[0]
			flat = flat[1:]
			return v
		}
		fs := make([]Val, len(l.F))
		for i := range l.F {
			fs[i] = rec(l.F[i])
		}
		return Comp(fs...)
	}
	return rec(like)
}

func (x *FnExec) iteVal(c Term, a, b Val) Val {
	fa, fb := a.Flatten(), b.Flatten()
	if len(fa) != len(fb) {
		x.errorf("ite: shape mismatch")
		return a
	}
	out := make([]Val, len(fa))
	for i := range fa {
		out[i] = fa[i]
		out[i].T = Ite(c, fa[i].T, fb[i].T)
	}
	if !a.IsComp() {
		return out[0]
	}
	return x.reshape(a, out)
}

func (x *FnExec) mergeStates(b *ssa.BasicBlock, n int, get func(int) (Term, *State)) *State {
	if n == 1 {
		c, s := get(0)
		ns := s.clone()
		ns.reach = c
		return ns
	}
	ns := &State{heaps: map[string]Term{}}
	var conds []Term
	keys := map[string]bool{}
	for i := 0; i < n; i++ {
		c, s := get(i)
		conds = append(conds, c)
		for k := range s.heaps {
			keys[k] = true
		}
	}
	ns.reach = x.ctx.Define(fmt.Sprintf("R_b%d", b.Index), SBool, Or(conds...))
	for _, k := range sortedKeys(keys) {
		var t Term
		for i := n - 1; i >= 0; i-- {
			c, s := get(i)
			h := x.getHeap(s, k, x.heapBool[k])
			if i == n-1 {
				t = h
			} else {
				t = Ite(c, h, t)
			}
		}
		ns.heaps[k] = x.ctx.Define("H_"+k, x.heapSort(k), t)
	}
	var at Term
	for i := n - 1; i >= 0; i-- {
		c, s := get(i)
		if i == n-1 {
			at = s.alloc
		} else {
			at = Ite(c, s.alloc, at)
		}
	}
	ns.alloc = x.ctx.Define("alloc", SInt, at)
	return ns
}

// loopEnv builds the naming environment for loop clauses at header b.
func (x *FnExec) loopEnv(b *ssa.BasicBlock, st *State, phiVal func(*ssa.Phi) Val) *Env {
	var args []Val
	for _, p := range x.fn.Params {
		args = append(args, x.vals[p])
	}
	env := x.envFor(x.con, x.fn, args, nil, st.heaps, x.entry.heaps, x.entry.alloc)
	x.addFreeVarNames(env)
	phis := map[string]*ssa.Phi{}
	for _, in := range b.Instrs {
		if phi, ok := in.(*ssa.Phi); ok {
			if phi.Comment != "" {
				phis[phi.Comment] = phi
			}
		} else {
			break
		}
	}
	prev := env.resolver
	env.resolver = func(name string) (TVal, bool) {
		// entry values of parameters: name0
		if phi, ok := phis[name]; ok {
			return TVal{phiVal(phi), phi.Type()}, true
		}
		// name_pre: the value of a loop-carried variable on entry to the loop
		if strings.HasSuffix(name, "_pre") {
			if phi, ok := phis[strings.TrimSuffix(name, "_pre")]; ok {
				body := x.loopBlocks(b)
				for i, pred := range b.Preds {
					if !body[pred] {
						if v, ok := x.vals[phi.Edges[i]]; ok {
							return TVal{v, phi.Type()}, true
						}
						if c, ok := phi.Edges[i].(*ssa.Const); ok {
							return TVal{x.constVal(c), phi.Type()}, true
						}
					}
				}
			}
		}
		if strings.HasSuffix(name, "0") {
			base := strings.TrimSuffix(name, "0")
			for i, p := range x.fn.Params {
				if p.Name() == base {
					return TVal{args[i], p.Type()}, true
				}
			}
		}
		if v, ok := x.resolveLocal(name, b, st); ok {
			return v, true
		}
		if prev != nil {
			return prev(name)
		}
		return TVal{}, false
	}
	// a loop variable shadows a parameter of the same name
	for n := range phis {
		delete(env.vars, n)
	}
	x.unshadowSpilledParams(env)
	return env
}

// unshadowSpilledParams: a parameter the function reassigns lives in a stack cell; inside
// the body (loop clauses, call-site assertions) its name means the current content, and
// name0 the entry value.
func (x *FnExec) unshadowSpilledParams(env *Env) {
	for _, blk := range x.fn.Blocks {
		for _, in := range blk.Instrs {
			if a, ok := in.(*ssa.Alloc); ok && a.Comment != "" {
				if _, isParam := env.vars[a.Comment]; isParam {
					if _, have := x.vals[a]; have {
						delete(env.vars, a.Comment)
					}
				}
			}
		}
	}
}

// resolveLocal finds the SSA value that holds source variable name at block b.
func (x *FnExec) resolveLocal(name string, b *ssa.BasicBlock, st *State) (TVal, bool) {
	// address-taken locals
	for _, blk := range x.fn.Blocks {
		for _, in := range blk.Instrs {
			if a, ok := in.(*ssa.Alloc); ok && a.Comment == name {
				if v, ok := x.vals[a]; ok {
					el := a.Type().(*types.Pointer).Elem()
					return TVal{x.load(st, v.T, el), el}, true
				}
			}
		}
	}
	cands := x.nameAt[name]
	var best ssa.Value
	for _, c := range cands {
		in, ok := c.(ssa.Instruction)
		if !ok {
			if _, have := x.vals[c]; have {
				best = c
			}
			continue
		}
		if _, have := x.vals[c]; !have {
			continue
		}
		if in.Block() == b || in.Block().Dominates(b) {
			if best == nil {
				best = c
			} else if bi, ok := best.(ssa.Instruction); ok && bi.Block().Dominates(in.Block()) {
				best = c
			}
		}
	}
	if best != nil {
		return TVal{x.vals[best], best.Type()}, true
	}
	return TVal{}, false
}

func (x *FnExec) havocLoop(h *ssa.BasicBlock, st *State, ls *LoopSpec, pre *State) {
	// result graphs owned before the loop may be handed out in a later iteration than the
	// one whose havoc would restore them: give them up
	for _, o := range x.ownedRegions {
		if o.graph {
			o.escaped = true
		}
	}
	body := x.loopBlocks(h)
	writes := false
	allocs := false
	for blk := range body {
		for _, in := range blk.Instrs {
			switch in := in.(type) {
			case *ssa.Store, *ssa.MapUpdate:
				writes = true
			case ssa.CallInstruction:
				writes = true
				allocs = true
				_ = in
			case *ssa.Alloc, *ssa.MakeSlice, *ssa.MakeMap, *ssa.MakeInterface, *ssa.MakeClosure:
				allocs = true
			}
		}
	}
	if allocs {
		na := x.ctx.Fresh("alloc_loop", SInt)
		x.ctx.Assert(Ge(na, st.alloc))
		st.alloc = na
	}
	if !writes {
		return
	}
	if ls.ModGiven {
		// only the listed locations change: H' = H with stores of fresh values
		// names of loop-carried variables denote their value on entry to the loop
		env := x.loopEnv(h, pre, func(p *ssa.Phi) Val {
			body := x.loopBlocks(h)
			for i, pred := range h.Preds {
				if !body[pred] {
					if v, ok := x.vals[p.Edges[i]]; ok {
						return v
					}
					if c, ok := p.Edges[i].(*ssa.Const); ok {
						return x.constVal(c)
					}
				}
			}
			return Val{}
		})
		x.havocPtrs = nil
		for _, m := range ls.Modifies {
			x.havocLoc(env, st, m)
		}
		// addresses the iterations left in the modified locations refer to allocated memory
		x.boundHavocPtrs(st.alloc)
		return
	}
	// default: the heaps the loop body can write are unknown after the cut: the heaps of the
	// cells stored to by its instructions and of the modifies clauses of the contracts it
	// calls; everything if it calls code without a (precise) contract.
	keys := map[string]bool{}
	all := false
	for blk := range body {
		for _, in := range blk.Instrs {
			switch in := in.(type) {
			case *ssa.Store:
				el := in.Addr.Type().Underlying().(*types.Pointer).Elem()
				for _, l := range x.leavesOfPtr(in.Addr, el) {
					keys[l.Key] = true
					x.heapBool[l.Key] = l.Bool
				}
			case *ssa.MapUpdate:
				tk := typeKey(in.Map.Type())
				keys["map:"+tk], keys["mapin:"+tk], keys["maplen:"+tk] = true, true, true
			case ssa.CallInstruction:
				if ks, ok := x.calleeWriteKeys(in.Common()); ok {
					for _, k := range ks {
						keys[k] = true
					}
				} else {
					all = true
				}
			}
		}
	}
	if all {
		for k := range st.heaps {
			keys[k] = true
		}
		for k := range x.heapBool {
			keys[k] = true
		}
	}
	allGhost, ghostKeys := x.loopGhostKeys(body)
	for k := range ghostKeys {
		keys[k] = true
	}
	old := map[string]Term{}
	for _, k := range sortedKeys(keys) {
		if strings.HasPrefix(k, "ghost:") && !allGhost && !ghostKeys[k] {
			continue
		}
		old[k] = x.getHeap(st, k, x.heapBool[k])
		st.heaps[k] = x.ctx.Fresh("Hl_"+k, x.heapSort(k))
	}
	// stack variables that no instruction of the loop stores to keep their content
	written := map[*ssa.Alloc]bool{}
	for blk := range body {
		for _, in := range blk.Instrs {
			if s, ok := in.(*ssa.Store); ok {
				if a := rootAlloc(s.Addr); a != nil {
					written[a] = true
				}
			}
		}
	}
	for _, l := range x.locals {
		if !written[l.instr] {
			x.restoreCells(st, old, l)
		}
	}
	x.restoreImmutableGlobals(st, old)
	// unescaped fresh objects that no instruction of the loop stores into keep their content
	writtenAddr := map[Term]bool{}
	for blk := range body {
		for _, in := range blk.Instrs {
			if s, ok := in.(*ssa.Store); ok {
				v := s.Addr
				for {
					if fa, ok := v.(*ssa.FieldAddr); ok {
						v = fa.X
						continue
					}
					if ia, ok := v.(*ssa.IndexAddr); ok {
						v = ia.X
						continue
					}
					break
				}
				if _, isAlloc := v.(*ssa.Alloc); isAlloc {
					continue // a stack or new() object of this function, never a callee's fresh result
				}
				if val, ok := x.vals[v]; ok && !val.IsComp() {
					writtenAddr[val.T] = true
				} else {
					writtenAddr["?"] = true // address not yet known: assume anything
				}
			}
		}
	}
	if !writtenAddr["?"] {
		for _, o := range x.freshObjs {
			if !o.escaped && !writtenAddr[o.addr] {
				x.restoreCells(st, old, localAlloc{addr: o.addr, t: o.t})
			}
		}
	}
	x.restoreOwned(st, old)
	x.ctx.Note(fmt.Sprintf("loop %d of %s: no 'modifies' clause, all heaps havocked at the cut", x.loopOrd[h], x.fnName()))
}

// havocLoc replaces the content of one location by an unknown value in st.
// havocPtr: a value stored by havocLoc; whatever addresses it holds refer to memory that exists
// once the callee (or the loop iteration) that wrote it is done, i.e. below the frontier then.
type havocPtr struct {
	v Val
	t types.Type
}

// boundHavocPtrs places the addresses written by the havocs since the last call below end.
func (x *FnExec) boundHavocPtrs(end Term) {
	for _, h := range x.havocPtrs {
		for _, c := range x.existsBelow(h.v, h.t, end) {
			x.ctx.Assert(c)
		}
	}
	x.havocPtrs = nil
}

func (x *FnExec) havocLoc(env *Env, st *State, m CExpr) {
	if ix, ok := m.(*CIndex); ok {
		if id, ok := ix.X.(*CIdent); ok && id.Name == "Big" {
			a := env.scalar(env.Eval(ix.I), "modifies")
			h := x.getHeap(st, "Big", false)
			st.heaps["Big"] = x.ctx.Define("H_Big", SArrI, Sto(h, a, x.ctx.Fresh("hv", SInt)))
			return
		}
	}
	if c, ok := m.(*CCall); ok && c.Fn == "ghost" {
		if id, ok := c.Args[0].(*CIdent); ok {
			if id.Name == "none" {
				// ghost(none): "the abstract state is framed and nothing of it changes"
				return
			}
			key := "ghost:" + id.Name
			h := x.getHeap(st, key, false)
			if len(c.Args) > 1 {
				idx := env.scalar(env.Eval(c.Args[1]), "ghost index")
				st.heaps[key] = x.ctx.Define("H_"+key, SArrI, Sto(h, idx, x.ctx.Fresh("gv", SInt)))
			} else {
				st.heaps[key] = x.ctx.Define("H_"+key, SArrI, Sto(h, "0", x.ctx.Fresh("gv", SInt)))
			}
			return
		}
	}
	if c, ok := m.(*CCall); ok && c.Fn == "heap" {
		// heap("key"): the whole heap with that key
		if s, ok := c.Args[0].(*CStr); ok {
			for k := range x.heapBool {
				if strings.Contains(k, s.V) {
					st.heaps[k] = x.ctx.Fresh("Hm_"+k, x.heapSort(k))
				}
			}
			key := s.V
			if _, ok := x.heapBool[key]; !ok {
				// not yet touched: declare under its exact key
				x.initHeap(key, false)
				st.heaps[key] = x.ctx.Fresh("Hm_"+key, x.heapSort(key))
			}
			return
		}
	}
	// p.f or *p : evaluate the address
	switch m := m.(type) {
	case *CSel:
		base := env.Eval(m.X)
		if base.T != nil {
			if p, ok := base.T.Underlying().(*types.Pointer); ok {
				if stt, ok := p.Elem().Underlying().(*types.Struct); ok {
					for i := 0; i < stt.NumFields(); i++ {
						if stt.Field(i).Name() == m.Name {
							off := x.mem.FieldOffset(p.Elem(), i)
							addr := Add(base.V.T, Lit(int64(off)))
							ft := stt.Field(i).Type()
							hv := x.freshVal("hv", ft, true)
							x.havocPtrs = append(x.havocPtrs, havocPtr{hv, ft})
							x.storeL(st, addr, ft, hv, x.mem.FieldLeaves(p.Elem(), i))
							return
						}
					}
				}
			}
		}
	case *CCall:
		if m.Fn == "deref" {
			base := env.Eval(m.Args[0])
			if p, ok := base.T.Underlying().(*types.Pointer); ok {
				hv := x.freshVal("hv", p.Elem(), true)
				x.havocPtrs = append(x.havocPtrs, havocPtr{hv, p.Elem()})
				x.store(st, base.V.T, p.Elem(), hv)
				return
			}
		}
		if m.Fn == "elems" {
			// elems(s): all elements of slice s
			base := env.Eval(m.Args[0])
			if sl, ok := base.T.Underlying().(*types.Slice); ok {
				for _, l := range x.mem.Leaves(sl.Elem()) {
					x.getHeap(st, l.Key, l.Bool)
					old := x.getHeap(st, l.Key, l.Bool)
					nh := x.ctx.Fresh("Hm_"+l.Key, x.heapSort(l.Key))
					// outside [ptr, ptr+cap*size) unchanged: encoded by a quantified frame axiom
					sz := x.mem.Size(sl.Elem())
					lo, hi := base.V.F[0].T, Add(base.V.F[0].T, Mul(base.V.F[2].T, Lit(int64(sz))))
					bv := x.ctx.boundVar("a")
					x.ctx.Assert(fmt.Sprintf("(forall ((%s Int)) (! (=> (or (< %s %s) (>= %s %s)) (= (select %s %s) (select %s %s))) :pattern ((select %s %s))))",
						bv, bv, lo, bv, hi, nh, bv, old, bv, nh, bv))
					st.heaps[l.Key] = nh
				}
				return
			}
		}
	}
	x.errorf("unsupported modifies location %s", cexprString(m))
}

// usedGlobals: package-level variables the function under analysis refers to (their
// invariants are assumed; invariants of globals the code never touches are irrelevant).
func (x *FnExec) usedGlobals() map[string]bool {
	if x.usedG != nil {
		return x.usedG
	}
	x.usedG = map[string]bool{}
	var ops []*ssa.Value
	for _, b := range x.fn.Blocks {
		for _, in := range b.Instrs {
			ops = in.Operands(ops[:0])
			for _, o := range ops {
				if o == nil || *o == nil {
					continue
				}
				if g, ok := (*o).(*ssa.Global); ok && g.Pkg != nil {
					x.usedG[g.Pkg.Pkg.Path()+"."+g.Name()] = true
				}
			}
		}
	}
	return x.usedG
}

// addModelTerms records which SMT terms describe an input (leaf values and the integers
// behind *big.Int leaves) so that a counterexample can be turned into concrete arguments.
func (x *FnExec) addModelTerms(name string, v Val, t types.Type) {
	leaves := x.mem.Leaves(t)
	flat := v.Flatten()
	for i, l := range leaves {
		if i >= len(flat) {
			break
		}
		term := flat[i].T
		if flat[i].B {
			term = Ite(term, "1", "0")
		}
		desc := fmt.Sprintf("%s#%d", name, i)
		x.modelTerms = append(x.modelTerms, [2]string{desc, term})
		if l.IsPtr && (strings.HasSuffix(l.Key, ".i") || l.Key == "cell:*math/big.Int") {
			x.modelTerms = append(x.modelTerms, [2]string{desc + "->Big", Sel(x.initHeap("Big", false), flat[i].T)})
		}
	}
}

// lemmaInstances: "uses L(args)" assumes the instance of lemma L at the given arguments.
// L is proved as a lemma obligation of every property this contract is tagged with.
func (x *FnExec) lemmaInstances(env *Env) []Term {
	var out []Term
	for _, u := range x.con.LemmaUses {
		var lem *Lemma
		for _, l := range x.eng.cs.Lemmas {
			if l.Name == u.Fn {
				lem = l
			}
		}
		if lem == nil {
			x.errorf("uses: unknown lemma %s", u.Fn)
			continue
		}
		for _, p := range x.con.Props {
			found := false
			for _, lp := range lem.Props {
				if lp == p {
					found = true
				}
			}
			if !found {
				x.errorf("uses: lemma %s is not an obligation of property %s", u.Fn, p)
			}
		}
		if len(u.Args) != len(lem.Vars) {
			x.errorf("uses: lemma %s takes %d arguments", u.Fn, len(lem.Vars))
			continue
		}
		sub := *env
		sub.vars = map[string]TVal{}
		for k, v := range env.vars {
			sub.vars[k] = v
		}
		vals := make([]TVal, len(u.Args))
		for i, a := range u.Args {
			vals[i] = env.Eval(a)
		}
		for i, v := range lem.Vars {
			sub.vars[v[0]] = vals[i]
		}
		var hyps, concls []Term
		for _, h := range lem.Hyps {
			hyps = append(hyps, sub.EvalBool(h.E))
		}
		for _, c := range lem.Concl {
			concls = append(concls, sub.EvalBool(c.E))
		}
		out = append(out, Implies(And(hyps...), And(concls...)))
	}
	return out
}

func rootAlloc(v ssa.Value) *ssa.Alloc {
	for {
		switch t := v.(type) {
		case *ssa.Alloc:
			return t
		case *ssa.FieldAddr:
			v = t.X
		case *ssa.IndexAddr:
			v = t.X
		default:
			return nil
		}
	}
}

// restoreCells copies the cells of a stack variable from the heaps in old into st.
func (x *FnExec) restoreCells(st *State, old map[string]Term, l localAlloc) {
	for i, leaf := range x.mem.Leaves(l.t) {
		o, ok := old[leaf.Key]
		if !ok {
			continue
		}
		cur, ok := st.heaps[leaf.Key]
		if !ok || cur == o {
			continue
		}
		a := Add(l.addr, Lit(int64(i)))
		st.heaps[leaf.Key] = x.ctx.Define("H_"+leaf.Key, x.heapSort(leaf.Key), Sto(cur, a, Sel(o, a)))
	}
}

func (x *FnExec) loopTouchesGhost(body map[*ssa.BasicBlock]bool) bool {
	for blk := range body {
		for _, in := range blk.Instrs {
			if _, ok := in.(ssa.CallInstruction); ok {
				return true
			}
		}
	}
	return false
}

// loopGhostKeys: the abstract (ghost) cells the calls of a loop body can change. A callee
// without a contract is assumed to leave the abstract state unchanged (the same assumption as
// at the call itself, printed there); a contract with 'modifies *' and no ghost list changes all
// of it; otherwise exactly the ghost cells its modifies clause lists.
func (x *FnExec) loopGhostKeys(body map[*ssa.BasicBlock]bool) (bool, map[string]bool) {
	keys := map[string]bool{}
	for blk := range body {
		for _, in := range blk.Instrs {
			ci, ok := in.(ssa.CallInstruction)
			if !ok {
				continue
			}
			con := x.contractOfCall(ci.Common())
			if con == nil {
				continue
			}
			listed := false
			for _, m := range con.Modifies {
				if c, ok := m.(*CCall); ok && c.Fn == "ghost" {
					if id, ok := c.Args[0].(*CIdent); ok {
						if id.Name != "none" {
							keys["ghost:"+id.Name] = true
						}
						listed = true
					}
				}
			}
			if con.ModAll && !listed {
				return true, keys
			}
		}
	}
	return false, keys
}

// contractOfCall: the contract a call site is checked against, nil if there is none.
func (x *FnExec) contractOfCall(c *ssa.CallCommon) *Contract {
	name := ""
	if c.IsInvoke() {
		name = "(" + typeKey(c.Value.Type()) + ")." + c.Method.Name()
	} else if f := c.StaticCallee(); f != nil {
		if f.Origin() != nil {
			f = f.Origin()
		}
		name = f.String()
		if x.eng.cs.Funcs[name] == nil && f.Synthetic != "" && strings.HasPrefix(f.Synthetic, "wrapper") {
			if sigR := f.Signature.Recv(); sigR != nil {
				if p, ok := sigR.Type().(*types.Pointer); ok {
					name = "(" + typeKey(p.Elem()) + ")." + f.Name()
				}
			}
		}
	} else if u, ok := c.Value.(*ssa.UnOp); ok {
		if g, ok := u.X.(*ssa.Global); ok {
			if f := x.eng.globalFuncInit(g); f != nil {
				name = f.String()
			}
		}
	} else if p, ok := c.Value.(*ssa.Parameter); ok {
		name = x.fn.String() + "." + p.Name()
	} else if mc, ok := c.Value.(*ssa.MakeClosure); ok {
		name = mc.Fn.(*ssa.Function).String()
	}
	return x.eng.cs.Funcs[name]
}

func (x *FnExec) usesRecoverOrDefer() bool {
	for _, b := range x.fn.Blocks {
		for _, in := range b.Instrs {
			if _, ok := in.(*ssa.Defer); ok {
				return true
			}
		}
	}
	return false
}

// calleeWriteKeys: the heap keys a call can write according to the callee's contract;
// ok=false when the callee is unknown or its contract says modifies *.
func (x *FnExec) calleeWriteKeys(c *ssa.CallCommon) ([]string, bool) {
	if b, ok := c.Value.(*ssa.Builtin); ok {
		switch b.Name() {
		case "append", "copy":
			if len(c.Args) > 0 {
				if sl, ok := c.Args[0].Type().Underlying().(*types.Slice); ok {
					var ks []string
					for _, l := range x.mem.Leaves(sl.Elem()) {
						ks = append(ks, l.Key)
						x.heapBool[l.Key] = l.Bool
					}
					return ks, true
				}
			}
			return nil, false
		case "delete":
			tk := typeKey(c.Args[0].Type())
			return []string{"mapin:" + tk, "maplen:" + tk}, true
		}
		return nil, true
	}
	name := ""
	if c.IsInvoke() {
		name = "(" + typeKey(c.Value.Type()) + ")." + c.Method.Name()
		if x.eng.cs.Funcs[name] == nil && (x.eng.cs.KeeperIfaces[typeKey(c.Value.Type())] || isStoreIterator(c.Value.Type()) || x.eng.isPureDep(name)) {
			return nil, true
		}
	} else if f := c.StaticCallee(); f != nil {
		if f.Origin() != nil {
			f = f.Origin()
		}
		name = f.String()
		if x.eng.cs.Funcs[name] == nil && x.eng.isPureDep(name) {
			return nil, true
		}
	} else if u, ok := c.Value.(*ssa.UnOp); ok {
		if g, ok := u.X.(*ssa.Global); ok {
			if f := x.eng.globalFuncInit(g); f != nil {
				name = f.String()
			}
		}
	}
	con := x.eng.cs.Funcs[name]
	if con == nil || con.ModAll {
		return nil, false
	}
	var ks []string
	for _, m := range con.Modifies {
		switch m := m.(type) {
		case *CIndex:
			if id, ok := m.X.(*CIdent); ok && id.Name == "Big" {
				ks = append(ks, "Big")
				continue
			}
			return nil, false
		case *CCall:
			if m.Fn == "ghost" {
				if id, ok := m.Args[0].(*CIdent); ok {
					if id.Name != "none" {
						ks = append(ks, "ghost:"+id.Name)
					}
					continue
				}
			}
			return nil, false
		default:
			return nil, false
		}
	}
	return ks, true
}
