package main

// Contract files: //@ lines in zz_verif_contracts.go (guarded by the verif build tag)
// and /verif/specs/*.spec (assumed contracts on dependencies).

import (
	"fmt"
	"os"
	"regexp"
	"strconv"
	"strings"
)

type Clause struct {
	E    CExpr
	Src  string
	Name string // optional label
}

type LoopSpec struct {
	Invariants []Clause
	Modifies   []CExpr
	ModGiven   bool
	Decreases  CExpr
}

type Contract struct {
	Key       string
	Pkg       string
	Params    []string
	Results   []string
	Requires  []Clause
	Ensures   []Clause
	OnPanic   []Clause // what holds of the state when the function panics (assumed at call sites; trusted contracts only)
	Assumed   []Clause // clauses callers may use but the body is not checked against (listed as assumptions)
	PanicsIff *Clause
	PanicTyp  CExpr    // dynamic type id of the value this function panics with (optional)
	PanicsIf  []Clause // one direction: condition implies panic (the function may also panic otherwise)
	MayPanic  bool
	NoIndexPanic   bool // with may_panic: only out-of-range indexing/slicing and division by zero are excluded
	NoRuntimePanic bool // with may_panic: explicit panics and callee panics are allowed, Go run-time errors are not
	DecImmutable bool // dec_values_immutable: as IntImmutable, for LegacyDec/BigDec values
	IntImmutable bool // assumption: nobody mutates the big integer behind a math.Int value this function holds
	Modifies  []CExpr
	ModAll    bool
	Loops     map[int]*LoopSpec
	Props     []string
	Trusted   bool // assumed (dependency) contract: never verified against a body
	Inline    bool // body-as-spec
	File      string
	Line      int
	Lets      []LetDef
	// witness hints: "witness m := expr" proposes expr (which may name locals at the return)
	// for a top-level "exists m" of a postcondition when that postcondition is an obligation
	Witness map[string]CExpr
	// call-site assertions: "assert call <callee-substring> : expr"
	CallAsserts []CallAssert
	Owns        []string // pointer parameters whose referent only this function (and callees it passes it to) can modify
	Pow10Max    int      // largest exponent for which pow10 of a symbolic argument is instantiated (default 120)
	LemmaUses   []*CCall // lemma instances assumed at entry (the lemma is an obligation of the same property)
}

type Def struct {
	Params []string
	Body   CExpr
}

type LetDef struct {
	Name string
	E    CExpr
}

type CallAssert struct {
	Callee string
	E      CExpr
	Src    string
}

type GlobalSpec struct {
	Pkg       string
	Name      string
	Inv       Clause
	Immutable bool
	File      string
	Line      int
}

type Lemma struct {
	Name  string
	Vars  [][2]string // name, sort
	Hyps  []Clause
	Concl []Clause
	Props []string
	File  string
}

type ContractSet struct {
	Funcs   map[string]*Contract
	Globals map[string][]*GlobalSpec // by package path
	Lemmas  []*Lemma
	Errors  []string
	specLike bool
	Defs    map[string]*Def
	KeeperIfaces map[string]bool // interfaces whose methods touch stores only, never caller-visible memory (assumed)
	Pure    map[string]bool // trusted side-effect-free dependency functions (result unknown)
}

func NewContractSet() *ContractSet {
	return &ContractSet{Funcs: map[string]*Contract{}, Globals: map[string][]*GlobalSpec{}, Pure: map[string]bool{}, Defs: map[string]*Def{}, KeeperIfaces: map[string]bool{}}
}

var keywords = map[string]bool{"func": true, "global": true, "requires": true, "ensures": true, "ensures_assumed": true, "uses": true, "pow10_max": true, "owns": true, "panics_iff": true, "panics_if": true, "panic_typ": true, "on_panic": true, "define": true,
	"may_panic": true, "no_runtime_panic": true, "no_index_panic": true, "int_values_immutable": true, "dec_values_immutable": true, "modifies": true, "loop": true, "props": true, "trusted": true, "inline": true, "let": true, "witness": true,
	"lemma": true, "pure": true, "package": true, "keeper_iface": true, "var": true, "hyp": true, "concl": true, "assert": true, "end": true}

var funcHdr = regexp.MustCompile(`^func\s+(\([^)]*\)\.)?([A-Za-z0-9_$#\[\],./\-]+)\s*\(([^)]*)\)\s*(.*)$`)

// qualify turns a contract-file target into the ssa.Function.String() form.
func qualify(pkg, recv, name string) string {
	if recv == "" {
		if strings.Contains(name, "/") || pkg == "" {
			return name
		}
		return pkg + "." + name
	}
	r := strings.TrimSuffix(strings.TrimPrefix(recv, "("), ").")
	star := ""
	if strings.HasPrefix(r, "*") {
		star = "*"
		r = r[1:]
	}
	if !strings.Contains(r, ".") && pkg != "" {
		r = pkg + "." + r
	}
	return "(" + star + r + ")." + name
}

func splitNames(s string) []string {
	s = strings.TrimSpace(s)
	s = strings.TrimPrefix(s, "(")
	s = strings.TrimSuffix(s, ")")
	var out []string
	for _, p := range strings.Split(s, ",") {
		p = strings.TrimSpace(p)
		if p != "" {
			out = append(out, p)
		}
	}
	return out
}

// ParseContractText parses the //@ lines of one file. pkg is the import path the
// unqualified names are relative to ("" for spec files with fully qualified names).
func (cs *ContractSet) ParseContractText(file, pkg, text string, trusted bool) {
	type rawLine struct {
		n int
		s string
	}
	var lines []rawLine
	for i, l := range strings.Split(text, "\n") {
		t := strings.TrimSpace(l)
		if strings.HasPrefix(t, "//@") {
			t = strings.TrimPrefix(t, "//@")
		} else if trusted || !strings.HasSuffix(file, ".go") {
			// spec files: every non-comment line counts
			if strings.HasPrefix(t, "#") || strings.HasPrefix(t, "//") {
				continue
			}
		} else {
			continue
		}
		if j := strings.Index(t, " -- "); j >= 0 {
			t = t[:j]
		}
		t = strings.TrimSpace(t)
		if t == "" {
			continue
		}
		first := strings.Fields(t)[0]
		if !keywords[first] && len(lines) > 0 {
			lines[len(lines)-1].s += " " + t
			continue
		}
		lines = append(lines, rawLine{i + 1, t})
	}
	var cur *Contract
	var curLemma *Lemma
	errf := func(n int, f string, a ...any) {
		cs.Errors = append(cs.Errors, fmt.Sprintf("%s:%d: %s", file, n, fmt.Sprintf(f, a...)))
	}
	parse := func(n int, s string) CExpr {
		e, err := ParseCExpr(s)
		if err != nil {
			errf(n, "%v", err)
			return &CBool{true}
		}
		return e
	}
	for _, rl := range lines {
		fields := strings.Fields(rl.s)
		kw := fields[0]
		rest := strings.TrimSpace(strings.TrimPrefix(rl.s, kw))
		switch kw {
		case "func":
			curLemma = nil
			m := funcHdr.FindStringSubmatch(rl.s)
			if m == nil {
				errf(rl.n, "bad func header: %s", rl.s)
				cur = nil
				continue
			}
			key := qualify(pkg, m[1], m[2])
			cur = &Contract{Key: key, Pkg: pkg, Params: splitNames(m[3]), Results: splitNames(m[4]),
				Loops: map[int]*LoopSpec{}, Trusted: trusted, File: file, Line: rl.n}
			if _, dup := cs.Funcs[key]; dup {
				errf(rl.n, "duplicate contract for %s", key)
			}
			cs.Funcs[key] = cur
		case "global":
			curLemma = nil
			cur = nil
			// global NAME [immutable]: expr
			i := strings.Index(rest, ":")
			if i < 0 {
				errf(rl.n, "bad global: %s", rl.s)
				continue
			}
			hd := strings.Fields(rest[:i])
			g := &GlobalSpec{Pkg: pkg, Name: hd[0], File: file, Line: rl.n}
			for _, h := range hd[1:] {
				if h == "immutable" {
					g.Immutable = true
				}
			}
			src := strings.TrimSpace(rest[i+1:])
			g.Inv = Clause{E: parse(rl.n, src), Src: src}
			cs.Globals[pkg] = append(cs.Globals[pkg], g)
		case "package":
			cur, curLemma = nil, nil
			pkg = strings.TrimSpace(rest)
		case "define":
			cur, curLemma = nil, nil
			// define name(a, b, c) := expr
			i := strings.Index(rest, ":=")
			j := strings.Index(rest, "(")
			k := strings.Index(rest, ")")
			if i < 0 || j < 0 || k < 0 || k > i {
				errf(rl.n, "bad define")
				continue
			}
			cs.Defs[strings.TrimSpace(rest[:j])] = &Def{Params: splitNames(rest[j+1 : k]), Body: parse(rl.n, rest[i+2:])}
		case "keeper_iface":
			cur, curLemma = nil, nil
			cs.KeeperIfaces[qualifyType(pkg, strings.TrimSpace(rest))] = true
		case "pure":
			cur, curLemma = nil, nil
			cs.Pure[strings.TrimSpace(rest)] = true
		case "lemma":
			cur = nil
			curLemma = &Lemma{Name: fields[1], File: file}
			cs.Lemmas = append(cs.Lemmas, curLemma)
		case "var":
			if curLemma == nil {
				errf(rl.n, "var outside lemma")
				continue
			}
			// var a, b, c: Int
			i := strings.Index(rest, ":")
			sort := "Int"
			names := rest
			if i >= 0 {
				sort = strings.TrimSpace(rest[i+1:])
				names = rest[:i]
			}
			for _, nm := range splitNames(names) {
				curLemma.Vars = append(curLemma.Vars, [2]string{nm, sort})
			}
		case "hyp":
			if curLemma == nil {
				errf(rl.n, "hyp outside lemma")
				continue
			}
			curLemma.Hyps = append(curLemma.Hyps, Clause{E: parse(rl.n, rest), Src: rest})
		case "concl":
			if curLemma == nil {
				errf(rl.n, "concl outside lemma")
				continue
			}
			curLemma.Concl = append(curLemma.Concl, Clause{E: parse(rl.n, rest), Src: rest})
		case "props":
			if curLemma != nil {
				curLemma.Props = append(curLemma.Props, fields[1:]...)
			} else if cur != nil {
				cur.Props = append(cur.Props, fields[1:]...)
			}
		case "end":
			cur, curLemma = nil, nil
		default:
			if cur == nil {
				errf(rl.n, "clause outside func: %s", rl.s)
				continue
			}
			switch kw {
			case "requires":
				for _, part := range splitConj(parse(rl.n, rest)) {
					cur.Requires = append(cur.Requires, Clause{E: part, Src: cexprString(part)})
				}
			case "ensures":
				cur.Ensures = append(cur.Ensures, Clause{E: parse(rl.n, rest), Src: rest})
			case "owns":
				cur.Owns = append(cur.Owns, splitNames(rest)...)
			case "pow10_max":
				cur.Pow10Max, _ = strconv.Atoi(strings.TrimSpace(rest))
			case "uses":
				if cc, ok := parse(rl.n, rest).(*CCall); ok {
					cur.LemmaUses = append(cur.LemmaUses, cc)
				} else {
					errf(rl.n, "uses: expected lemma_name(args)")
				}
			case "ensures_assumed":
				cur.Assumed = append(cur.Assumed, Clause{E: parse(rl.n, rest), Src: rest})
			case "panics_iff":
				cur.PanicsIff = &Clause{E: parse(rl.n, rest), Src: rest}
			case "on_panic":
				cur.OnPanic = append(cur.OnPanic, Clause{E: parse(rl.n, rest), Src: rest})
			case "panic_typ":
				cur.PanicTyp = parse(rl.n, rest)
			case "panics_if":
				cur.PanicsIf = append(cur.PanicsIf, Clause{E: parse(rl.n, rest), Src: rest})
				cur.MayPanic = true
			case "may_panic":
				cur.MayPanic = true
			case "int_values_immutable":
				cur.IntImmutable = true
			case "dec_values_immutable":
				cur.IntImmutable = true
				cur.DecImmutable = true
			case "no_runtime_panic":
				cur.NoRuntimePanic = true
				cur.MayPanic = true
			case "no_index_panic":
				cur.NoIndexPanic = true
				cur.MayPanic = true
			case "trusted":
				cur.Trusted = true
			case "inline":
				cur.Inline = true
			case "witness":
				i := strings.Index(rest, ":=")
				if i < 0 {
					errf(rl.n, "bad witness")
					continue
				}
				if cur.Witness == nil {
					cur.Witness = map[string]CExpr{}
				}
				cur.Witness[strings.TrimSpace(rest[:i])] = parse(rl.n, rest[i+2:])
			case "let":
				i := strings.Index(rest, ":=")
				if i < 0 {
					errf(rl.n, "bad let")
					continue
				}
				cur.Lets = append(cur.Lets, LetDef{strings.TrimSpace(rest[:i]), parse(rl.n, rest[i+2:])})
			case "modifies":
				if rest == "nothing" {
					continue
				}
				if rest == "*" || rest == "everything" {
					cur.ModAll = true
					continue
				}
				for _, part := range splitTop(rest) {
					m := parse(rl.n, part)
					if c, ok := m.(*CCall); cur.ModAll && !(ok && c.Fn == "ghost") {
						errf(rl.n, "modifies * can only be combined with ghost(...) entries")
						continue
					}
					cur.Modifies = append(cur.Modifies, m)
				}
			case "assert":
				// assert call <name> : expr
				if len(fields) < 4 || fields[1] != "call" {
					errf(rl.n, "bad assert")
					continue
				}
				i := strings.Index(rest, ":")
				ex := strings.TrimSpace(rest[i+1:])
				cur.CallAsserts = append(cur.CallAsserts, CallAssert{Callee: fields[2], E: parse(rl.n, ex), Src: ex})
			case "loop":
				if len(fields) < 3 {
					errf(rl.n, "bad loop clause")
					continue
				}
				k, err := strconv.Atoi(fields[1])
				if err != nil {
					errf(rl.n, "bad loop ordinal")
					continue
				}
				ls := cur.Loops[k]
				if ls == nil {
					ls = &LoopSpec{}
					cur.Loops[k] = ls
				}
				body := strings.TrimSpace(strings.TrimPrefix(strings.TrimSpace(strings.TrimPrefix(rest, fields[1])), fields[2]))
				switch fields[2] {
				case "invariant":
					ls.Invariants = append(ls.Invariants, Clause{E: parse(rl.n, body), Src: body})
				case "decreases":
					ls.Decreases = parse(rl.n, body)
				case "modifies":
					ls.ModGiven = true
					if body != "nothing" {
						for _, part := range splitTop(body) {
							ls.Modifies = append(ls.Modifies, parse(rl.n, part))
						}
					}
				default:
					errf(rl.n, "bad loop clause kind %s", fields[2])
				}
			}
		}
	}
}

// splitTop splits at top-level commas.
func splitTop(s string) []string {
	var out []string
	depth := 0
	start := 0
	for i, r := range s {
		switch r {
		case '(', '[':
			depth++
		case ')', ']':
			depth--
		case ',':
			if depth == 0 {
				out = append(out, strings.TrimSpace(s[start:i]))
				start = i + 1
			}
		}
	}
	out = append(out, strings.TrimSpace(s[start:]))
	return out
}

func (cs *ContractSet) LoadSpecDir(dir string) error {
	return cs.LoadDir(dir, ".spec", true)
}

// LoadDir parses every file with the suffix; trusted=false marks the contracts as to be
// verified (lemma files, checked dependency contracts, canaries).
func (cs *ContractSet) LoadDir(dir, suffix string, trusted bool) error {
	ents, err := os.ReadDir(dir)
	if err != nil {
		if os.IsNotExist(err) {
			return nil
		}
		return err
	}
	for _, e := range ents {
		if !strings.HasSuffix(e.Name(), suffix) {
			continue
		}
		b, err := os.ReadFile(dir + "/" + e.Name())
		if err != nil {
			return err
		}
		cs.ParseContractText(dir+"/"+e.Name(), "", string(b), trusted)
		if !trusted {
			cs.specLike = true
		}
	}
	return nil
}

// splitConj splits a top-level conjunction into its conjuncts (finer-grained obligations).
func splitConj(e CExpr) []CExpr {
	if b, ok := e.(*CBinary); ok && b.Op == "&&" {
		return append(splitConj(b.X), splitConj(b.Y)...)
	}
	return []CExpr{e}
}

func qualifyType(pkg, name string) string {
	if strings.Contains(name, "/") || pkg == "" {
		return name
	}
	return pkg + "." + name
}
