package main

// govc standin <package dir relative to /repo> <test source file> <TestName> [timeout]
// Runs a bounded stand-in: a Go test injected into the real package through -overlay
// (nothing is written to /repo). The test prints
//   STANDIN evaluations=<n> distinct=<n> rule=<text>
//   FAIL <finding-id> <failing input>
// Exit 0: ran, no FAIL line. Exit 1: FAIL lines. Exit 3: did not run.

import (
	"bytes"
	"encoding/json"
	"fmt"
	"os"
	"os/exec"
	"path/filepath"
	"strings"
)

func cmdStandin(args []string) int {
	if len(args) < 3 {
		fmt.Fprintln(os.Stderr, "usage: govc standin <pkgdir> <testfile> <TestName> [timeout]")
		return 3
	}
	pkgDir := filepath.Join(repoDir, args[0])
	src, err := filepath.Abs(args[1])
	if err != nil {
		return 3
	}
	timeout := "20m"
	if len(args) > 3 {
		timeout = args[3]
	}
	scratch := scratchDir()
	defer os.RemoveAll(scratch)
	statik := filepath.Join(scratch, "statik.go")
	os.WriteFile(statik, []byte("package statik\n"), 0o644)
	repl := map[string]string{
		filepath.Join(pkgDir, "zz_govc_standin_test.go"):          src,
		filepath.Join(repoDir, "client/docs/statik/statik.go"): statik,
	}
	if ovEnv := os.Getenv("GOVC_OVERLAY"); ovEnv != "" {
		// selftest: the mutated sources must be what the stand-in runs
		var m map[string]string
		if err := readJSON(ovEnv, &m); err == nil {
			for k, v := range m {
				repl[k] = v
			}
		}
	}
	ov, _ := json.Marshal(map[string]any{"Replace": repl})
	ovFile := filepath.Join(scratch, "overlay.json")
	os.WriteFile(ovFile, ov, 0o644)
	cmd := exec.Command("go", "test", "-overlay", ovFile, "-vet=off", "-count=1", "-v", "-timeout", timeout, "-run", "^"+args[2]+"$", ".")
	cmd.Dir = pkgDir
	cmd.Env = append(os.Environ(), "GOFLAGS=", "GOPROXY=off", "GOSUMDB=off", "GOTOOLCHAIN=local")
	var out bytes.Buffer
	cmd.Stdout = &out
	cmd.Stderr = &out
	runErr := cmd.Run()
	seen, fails := false, 0
	for _, l := range strings.Split(out.String(), "\n") {
		l = strings.TrimSpace(l)
		if strings.HasPrefix(l, "STANDIN ") {
			seen = true
			fmt.Println(l)
		}
		if strings.HasPrefix(l, "FAIL ") && !strings.HasPrefix(l, "FAIL\t") {
			fails++
			if fails <= 50 {
				fmt.Println(l)
			}
		}
	}
	if !seen {
		txt := out.String()
		if len(txt) > 3000 {
			txt = txt[len(txt)-3000:]
		}
		fmt.Fprintf(os.Stderr, "stand-in did not complete (%v):\n%s\n", runErr, txt)
		return 3
	}
	if fails > 0 {
		return 1
	}
	return 0
}
