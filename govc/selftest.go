package main

// Selftest: property-breaking source mutants (must each be reported as a VIOLATION of the
// stated property) and harmless edits (must each leave the check quiet), applied through an
// overlay — /repo is never written.

import (
	"strconv"
	"bytes"
	"encoding/json"
	"fmt"
	"os"
	"os/exec"
	"path/filepath"
	"sort"
	"strings"
	"sync"
)

type Mutant struct {
	Name     string `json:"name"`
	Kind     string `json:"kind"` // mutant | harmless
	Prop     string `json:"prop"`
	File     string `json:"file"`
	Old      string `json:"old"`
	New      string `json:"new"`
	Replayed bool   `json:"expect_replay_confirmed"`
	Note     string `json:"note"`
	Nth      int    `json:"nth"` // which occurrence of old to replace (1-based); 0: must be unique
}

func replaceNth(src, old, new string, nth int) (string, bool) {
	if nth <= 0 {
		if strings.Count(src, old) != 1 {
			return "", false
		}
		return strings.Replace(src, old, new, 1), true
	}
	idx := -1
	pos := 0
	for i := 0; i < nth; i++ {
		j := strings.Index(src[pos:], old)
		if j < 0 {
			return "", false
		}
		idx = pos + j
		pos = idx + len(old)
	}
	return src[:idx] + new + src[idx+len(old):], true
}

func runSelftest(args []string) int {
	dir := filepath.Join(verifDir, "selftest", "mutants")
	ents, err := os.ReadDir(dir)
	if err != nil {
		fmt.Fprintln(os.Stderr, err)
		return 2
	}
	filter := ""
	if len(args) > 0 {
		filter = args[0]
	}
	var ms []Mutant
	for _, e := range ents {
		if !strings.HasSuffix(e.Name(), ".json") {
			continue
		}
		var list []Mutant
		b, _ := os.ReadFile(filepath.Join(dir, e.Name()))
		if err := json.Unmarshal(b, &list); err != nil {
			fmt.Fprintln(os.Stderr, e.Name(), err)
			return 2
		}
		for _, m := range list {
			if filter == "" || strings.Contains(m.Name, filter) || m.Prop == filter {
				ms = append(ms, m)
			}
		}
	}
	sort.Slice(ms, func(i, j int) bool { return ms[i].Name < ms[j].Name })
	self, _ := os.Executable()
	type res struct {
		m    Mutant
		ok   bool
		info string
	}
	out := make([]res, len(ms))
	par := 2
	if v, err := strconv.Atoi(os.Getenv("GOVC_SELFTEST_PAR")); err == nil && v >= 1 && v <= 8 {
		par = v
	}
	sem := make(chan struct{}, par)
	var wg sync.WaitGroup
	for i, m := range ms {
		wg.Add(1)
		go func(i int, m Mutant) {
			defer wg.Done()
			sem <- struct{}{}
			defer func() { <-sem }()
			scratch := scratchDir()
			defer os.RemoveAll(scratch)
			src, err := os.ReadFile(m.File)
			if err != nil {
				out[i] = res{m, false, err.Error()}
				return
			}
			mutated, okr := replaceNth(string(src), m.Old, m.New, m.Nth)
			if !okr {
				out[i] = res{m, false, fmt.Sprintf("pattern occurs %d times in %s (nth=%d)", strings.Count(string(src), m.Old), m.File, m.Nth)}
				return
			}
			mf := filepath.Join(scratch, "mutated.go")
			os.WriteFile(mf, []byte(mutated), 0o644)
			ov := filepath.Join(scratch, "ov.json")
			b, _ := json.Marshal(map[string]string{m.File: mf})
			os.WriteFile(ov, b, 0o644)
			cmd := exec.Command(self, "check", m.Prop, "quick")
			cmd.Env = append(os.Environ(), "GOVC_OVERLAY="+ov, "GOVC_EVIDENCE_DIR="+scratch, "GOVC_REPLAY_DIR="+filepath.Join(scratch, "replay"))
			var buf bytes.Buffer
			cmd.Stdout = &buf
			cmd.Stderr = &buf
			err = cmd.Run()
			code := 0
			if ee, ok := err.(*exec.ExitError); ok {
				code = ee.ExitCode()
			}
			txt := buf.String()
			nViol := strings.Count(txt, "VIOLATION property="+m.Prop)
			nConfirmed := 0
			for _, l := range strings.Split(txt, "\n") {
				if strings.HasPrefix(l, "VIOLATION") && !strings.HasSuffix(l, "no-failing-input-found") {
					nConfirmed++
				}
			}
			last := ""
			ls := strings.Split(strings.TrimSpace(txt), "\n")
			if len(ls) > 0 {
				last = ls[len(ls)-1]
			}
			switch m.Kind {
			case "harmless":
				out[i] = res{m, code == 0 && nViol == 0, fmt.Sprintf("exit %d, %d violations; %s", code, nViol, last)}
			default:
				ok := code == 1 && nViol > 0
				if m.Replayed && nConfirmed == 0 {
					ok = false
				}
				out[i] = res{m, ok, fmt.Sprintf("exit %d, %d violations (%d replayed on the real code); %s", code, nViol, nConfirmed, last)}
			}
		}(i, m)
	}
	wg.Wait()
	bad := 0
	for _, r := range out {
		st := "ok  "
		if !r.ok {
			st = "FAIL"
			bad++
		}
		fmt.Printf("%s %-9s %-4s %-45s %s\n", st, r.m.Kind, r.m.Prop, r.m.Name, r.info)
	}
	fmt.Printf("selftest: %d/%d as expected\n", len(out)-bad, len(out))
	if bad > 0 {
		return 1
	}
	return 0
}
