package main

import (
	"fmt"
	"go/types"
	"os"
	"path/filepath"
	"sort"
	"strings"
	"sync"

	"golang.org/x/tools/go/packages"
	"golang.org/x/tools/go/ssa"
	"golang.org/x/tools/go/ssa/ssautil"
)

const repoDir = "/repo"

type Engine struct {
	prog    *ssa.Program
	initial []*packages.Package
	ssaPkgs []*ssa.Package
	cs      *ContractSet
	mem     *Mem
	funcs   map[string]*ssa.Function

	mu        sync.Mutex
	strIDs    map[string]int
	typeIDs   map[string]int
	funcIDs   map[*ssa.Function]int
	gAddrs    map[*ssa.Global]int
	gNext     int
	closureMu sync.Mutex
	closures  map[closureKey]closureInfo
	trusted   map[string]bool
	pureUsed  map[string]bool
	overlay   map[string][]byte
}

func NewEngine() *Engine {
	return &Engine{cs: NewContractSet(), mem: NewMem(), funcs: map[string]*ssa.Function{}, strIDs: map[string]int{},
		typeIDs: map[string]int{}, funcIDs: map[*ssa.Function]int{}, gAddrs: map[*ssa.Global]int{}, gNext: 1000,
		closures: map[closureKey]closureInfo{}, trusted: map[string]bool{}, pureUsed: map[string]bool{}}
}

func (e *Engine) strID(s string) int {
	e.mu.Lock()
	defer e.mu.Unlock()
	if id, ok := e.strIDs[s]; ok {
		return id
	}
	id := len(e.strIDs) + 1
	e.strIDs[s] = id
	return id
}

func (e *Engine) typeID(t types.Type) int {
	e.mu.Lock()
	defer e.mu.Unlock()
	k := typeKey(t)
	if id, ok := e.typeIDs[k]; ok {
		return id
	}
	id := len(e.typeIDs) + 1
	e.typeIDs[k] = id
	return id
}

func (e *Engine) funcID(f *ssa.Function) int {
	e.mu.Lock()
	defer e.mu.Unlock()
	if id, ok := e.funcIDs[f]; ok {
		return id
	}
	id := len(e.funcIDs) + 100
	e.funcIDs[f] = id
	return id
}

func (e *Engine) globalAddr(g *ssa.Global, m *Mem) int {
	e.mu.Lock()
	defer e.mu.Unlock()
	if a, ok := e.gAddrs[g]; ok {
		return a
	}
	a := e.gNext
	e.gAddrs[g] = a
	e.gNext += m.Size(g.Type().(*types.Pointer).Elem()) + 1
	return a
}

// all global cells live below this bound; alloc0 is asserted above it.
func (e *Engine) globalTop() int { return 1 << 40 }

func (e *Engine) isPureDep(name string) bool { return e.cs.Pure[name] }
func (e *Engine) usedPure(name string) {
	e.mu.Lock()
	e.pureUsed[name] = true
	e.mu.Unlock()
}
func (e *Engine) usedTrusted(name string) {
	e.mu.Lock()
	e.trusted[name] = true
	e.mu.Unlock()
}

func (e *Engine) pkgOfContract(con *Contract) *ssa.Package {
	path := con.Pkg
	if path == "" {
		k := con.Key
		k = strings.TrimPrefix(k, "(")
		k = strings.TrimPrefix(k, "*")
		if i := strings.LastIndex(k, ")."); i >= 0 {
			k = k[:i]
		}
		if i := strings.LastIndex(k, "."); i >= 0 {
			path = k[:i]
		}
	}
	for _, p := range e.prog.AllPackages() {
		if p.Pkg.Path() == path {
			return p
		}
	}
	return nil
}

// Load loads the given package patterns of /repo with the verif tag and builds SSA
// for them (dependencies get declarations only).
func (e *Engine) Load(patterns []string) error {
	cfg := &packages.Config{
		Mode: packages.NeedName | packages.NeedFiles | packages.NeedCompiledGoFiles | packages.NeedImports |
			packages.NeedDeps | packages.NeedTypes | packages.NeedSyntax | packages.NeedTypesInfo | packages.NeedTypesSizes | packages.NeedModule,
		Dir:        repoDir,
		BuildFlags: []string{"-tags=verif"},
		Env:        append(os.Environ(), "GOFLAGS=", "GOPROXY=off", "GOSUMDB=off", "GOTOOLCHAIN=local", "GOWORK="+repoDir+"/go.work"),
		Overlay:    e.overlay,
	}
	pkgs, err := packages.Load(cfg, patterns...)
	if err != nil {
		return err
	}
	var errs []string
	packages.Visit(pkgs, nil, func(p *packages.Package) {
		for _, er := range p.Errors {
			errs = append(errs, er.Error())
		}
	})
	if len(errs) > 0 {
		if len(errs) > 10 {
			errs = errs[:10]
		}
		return fmt.Errorf("packages do not type-check:\n%s", strings.Join(errs, "\n"))
	}
	e.initial = pkgs
	prog, spkgs := ssautil.AllPackages(pkgs, ssa.GlobalDebug|ssa.InstantiateGenerics)
	e.prog = prog
	for _, sp := range spkgs {
		if sp != nil {
			sp.Build()
			e.ssaPkgs = append(e.ssaPkgs, sp)
			e.indexPackage(sp)
		}
	}
	// contract files: of every loaded package (dependencies inside /repo included)
	var cerr error
	seenFile := map[string]bool{}
	packages.Visit(pkgs, nil, func(p *packages.Package) {
		for _, f := range p.GoFiles {
			if filepath.Base(f) == "zz_verif_contracts.go" && !seenFile[f] {
				seenFile[f] = true
				var b []byte
				if ov, ok := e.overlay[f]; ok {
					b = ov
				} else {
					var err error
					b, err = os.ReadFile(f)
					if err != nil {
						cerr = err
						return
					}
				}
				e.cs.ParseContractText(f, p.PkgPath, string(b), false)
			}
		}
	})
	if cerr != nil {
		return cerr
	}
	return nil
}

func (e *Engine) indexPackage(sp *ssa.Package) {
	var addFn func(f *ssa.Function)
	addFn = func(f *ssa.Function) {
		if f == nil {
			return
		}
		e.funcs[f.String()] = f
		for _, a := range f.AnonFuncs {
			addFn(a)
		}
	}
	for _, m := range sp.Members {
		switch m := m.(type) {
		case *ssa.Function:
			addFn(m)
		case *ssa.Type:
			t := m.Type()
			for _, tt := range []types.Type{t, types.NewPointer(t)} {
				ms := e.prog.MethodSets.MethodSet(tt)
				for i := 0; i < ms.Len(); i++ {
					f := e.prog.MethodValue(ms.At(i))
					if f != nil && f.Synthetic == "" {
						addFn(f)
					}
				}
			}
		}
	}
}

// ContractsFor returns the contracts (non-trusted, with bodies to check) tagged with prop.
func (e *Engine) ContractsFor(prop string) []*Contract {
	var out []*Contract
	for _, c := range e.cs.Funcs {
		if c.Trusted {
			continue
		}
		for _, p := range c.Props {
			if p == prop {
				out = append(out, c)
				break
			}
		}
	}
	sort.Slice(out, func(i, j int) bool { return out[i].Key < out[j].Key })
	return out
}

// globalFuncInit: the function a package-level function variable is initialised with, if
// the package initialiser stores exactly one function into it.
func (e *Engine) globalFuncInit(g *ssa.Global) *ssa.Function {
	if g.Pkg == nil {
		return nil
	}
	g.Pkg.Build() // idempotent; dependency packages are otherwise left unbuilt
	init := g.Pkg.Func("init")
	if init == nil {
		return nil
	}
	var found *ssa.Function
	n := 0
	for _, b := range init.Blocks {
		for _, in := range b.Instrs {
			if st, ok := in.(*ssa.Store); ok && st.Addr == ssa.Value(g) {
				n++
				if f, ok := st.Val.(*ssa.Function); ok {
					found = f
				}
			}
		}
	}
	if n == 1 {
		return found
	}
	return nil
}

func (e *Engine) ssaPkg(path string) *ssa.Package {
	for _, p := range e.prog.AllPackages() {
		if p.Pkg.Path() == path {
			return p
		}
	}
	return nil
}

func (e *Engine) typeIDByName(k string) int {
	e.mu.Lock()
	defer e.mu.Unlock()
	if id, ok := e.typeIDs[k]; ok {
		return id
	}
	id := len(e.typeIDs) + 1
	e.typeIDs[k] = id
	return id
}
