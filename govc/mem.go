package main

// Memory model: every Go value is a tree of scalar SMT terms (Int or Bool).
// Memory is a set of SMT arrays ("heaps") indexed by integer addresses, one per
// (innermost struct type, field) or per scalar cell type (Burstall-Bornat with
// flat addresses, so that the address of a field is base+offset and can be
// passed to a callee as a pointer).

import (
	"fmt"
	"go/types"
	"strings"
)

// Val is a symbolic Go value.
type Val struct {
	T Term  // scalar term (when F == nil)
	B bool  // scalar is Bool
	F []Val // composite: struct fields / tuple / slice (ptr,len,cap) / interface (typ,val)
	C bool  // composite marker (distinguishes empty struct)
}

func IntV(t Term) Val  { return Val{T: t} }
func BoolV(t Term) Val { return Val{T: t, B: true} }
func Comp(f ...Val) Val { return Val{F: f, C: true} }

func (v Val) IsComp() bool { return v.C }

func (v Val) Flatten() []Val {
	if !v.C {
		return []Val{v}
	}
	var out []Val
	for _, f := range v.F {
		out = append(out, f.Flatten()...)
	}
	return out
}

type Leaf struct {
	Key   string // heap key
	Bool  bool
	IsPtr bool // leaf holds an address
}

var opaqueTypes = map[string]bool{
	"math/big.Int":   true,
	"math/big.Rat":   true,
	"math/big.Float": true,
	"time.Time":      true,
	"time.Location":  true,
	"sync.Mutex":     true,
	"sync.RWMutex":   true,
	"sync.Once":      true,
	"github.com/cosmos/cosmos-sdk/types.Context": true,
	"testing.T": true,
}

func typeKey(t types.Type) string {
	return types.TypeString(t, nil)
}

func isOpaque(t types.Type) bool {
	if n, ok := t.(*types.Named); ok {
		if opaqueTypes[typeKey(n)] {
			return true
		}
	}
	return false
}

const maxArrayLeaves = 256

type Mem struct {
	cache   map[types.Type][]Leaf
	PtrKeys map[string]bool // heap keys whose cells hold addresses
	PtrElem map[string]types.Type // pointee type of a pointer heap key, element type of a slice "#ptr" key
}

func NewMem() *Mem {
	return &Mem{cache: map[types.Type][]Leaf{}, PtrKeys: map[string]bool{}, PtrElem: map[string]types.Type{}}
}

// Leaves lists the scalar cells of a value of type t laid out in memory, with the
// heap each one lives in. ctxKey is the key prefix given by the enclosing struct field
// ("" at the root).
func (m *Mem) Leaves(t types.Type) []Leaf {
	if l, ok := m.cache[t]; ok {
		return l
	}
	l := m.leaves(t, "")
	m.cache[t] = l
	return l
}

func (m *Mem) leaves(t types.Type, fieldKey string) []Leaf {
	cell := func(suffix string, isBool, isPtr bool) Leaf {
		k := fieldKey
		if k == "" {
			k = "cell:" + typeKey(t)
		}
		if isPtr {
			m.PtrKeys[k+suffix] = true
		}
		return Leaf{Key: k + suffix, Bool: isBool, IsPtr: isPtr}
	}
	if isOpaque(t) {
		if typeKey(t) == "math/big.Int" {
			return []Leaf{{Key: "Big"}}
		}
		return []Leaf{{Key: "opaque:" + typeKey(t)}}
	}
	switch u := t.Underlying().(type) {
	case *types.Basic:
		if u.Info()&types.IsBoolean != 0 {
			return []Leaf{cell("", true, false)}
		}
		return []Leaf{cell("", false, u.Kind() == types.UnsafePointer)}
	case *types.Pointer, *types.Map, *types.Chan, *types.Signature:
		l := cell("", false, true)
		if p, ok := u.(*types.Pointer); ok {
			m.PtrElem[l.Key] = p.Elem()
		}
		return []Leaf{l}
	case *types.Slice:
		lp := cell("#ptr", false, true)
		m.PtrElem[lp.Key] = u.Elem()
		return []Leaf{lp, cell("#len", false, false), cell("#cap", false, false)}
	case *types.Interface:
		return []Leaf{cell("#typ", false, false), cell("#val", false, false)}
	case *types.Struct:
		name := typeKey(t)
		var out []Leaf
		for i := 0; i < u.NumFields(); i++ {
			f := u.Field(i)
			out = append(out, m.leaves(f.Type(), name+"."+f.Name())...)
		}
		return out
	case *types.Array:
		el := m.leaves(u.Elem(), "")
		n := int(u.Len())
		if n*len(el) > maxArrayLeaves || n*len(el) == 0 {
			return []Leaf{{Key: "opaque:" + typeKey(t)}}
		}
		var out []Leaf
		for i := 0; i < n; i++ {
			out = append(out, el...)
		}
		return out
	case *types.Tuple:
		var out []Leaf
		for i := 0; i < u.Len(); i++ {
			out = append(out, m.leaves(u.At(i).Type(), "")...)
		}
		return out
	}
	return []Leaf{{Key: "opaque:" + typeKey(t)}}
}

// note: nested struct fields use their own innermost struct's keys, because leaves()
// is re-entered with fieldKey = "<Outer>.<field>" only for non-struct field types:
// a struct-typed field recurses into case *types.Struct, which ignores fieldKey.

func (m *Mem) Size(t types.Type) int {
	n := len(m.Leaves(t))
	if n == 0 {
		return 1
	}
	return n
}

// FieldLeaves: the leaves of field i of struct type t, keyed by the struct (not by the
// field's own type), as they are laid out inside a t.
func (m *Mem) FieldLeaves(t types.Type, i int) []Leaf {
	st := t.Underlying().(*types.Struct)
	f := st.Field(i)
	return m.leaves(f.Type(), typeKey(t)+"."+f.Name())
}

// FieldOffset returns the leaf offset of field i in struct type t.
func (m *Mem) FieldOffset(t types.Type, i int) int {
	st := t.Underlying().(*types.Struct)
	off := 0
	for j := 0; j < i; j++ {
		off += len(m.Leaves(st.Field(j).Type()))
	}
	return off
}

// Shape builds a Val of type t from a flat list of scalars.
func (m *Mem) Shape(t types.Type, flat []Val) Val {
	v, rest := m.shape(t, flat)
	if len(rest) != 0 {
		panic(fmt.Sprintf("shape: %d leftover leaves for %s", len(rest), t))
	}
	return v
}

func (m *Mem) shape(t types.Type, flat []Val) (Val, []Val) {
	if isOpaque(t) {
		return flat[0], flat[1:]
	}
	switch u := t.Underlying().(type) {
	case *types.Slice:
		return Comp(flat[0], flat[1], flat[2]), flat[3:]
	case *types.Interface:
		return Comp(flat[0], flat[1]), flat[2:]
	case *types.Struct:
		var fs []Val
		for i := 0; i < u.NumFields(); i++ {
			var f Val
			f, flat = m.shape(u.Field(i).Type(), flat)
			fs = append(fs, f)
		}
		return Comp(fs...), flat
	case *types.Array:
		n := len(m.Leaves(t))
		if n == 1 && strings.HasPrefix(m.Leaves(t)[0].Key, "opaque:") {
			return flat[0], flat[1:]
		}
		var fs []Val
		for i := 0; i < int(u.Len()); i++ {
			var f Val
			f, flat = m.shape(u.Elem(), flat)
			fs = append(fs, f)
		}
		return Comp(fs...), flat
	case *types.Tuple:
		var fs []Val
		for i := 0; i < u.Len(); i++ {
			var f Val
			f, flat = m.shape(u.At(i).Type(), flat)
			fs = append(fs, f)
		}
		return Comp(fs...), flat
	}
	return flat[0], flat[1:]
}

// integer range of a basic type: returns (lo, hi, ok)
func intRange(t types.Type) (string, string, bool) {
	b, ok := t.Underlying().(*types.Basic)
	if !ok {
		return "", "", false
	}
	switch b.Kind() {
	case types.Int, types.Int64:
		return "(- 9223372036854775808)", "9223372036854775807", true
	case types.Int32:
		return "(- 2147483648)", "2147483647", true
	case types.Int16:
		return "(- 32768)", "32767", true
	case types.Int8:
		return "(- 128)", "127", true
	case types.Uint, types.Uint64, types.Uintptr:
		return "0", "18446744073709551615", true
	case types.Uint32:
		return "0", "4294967295", true
	case types.Uint16:
		return "0", "65535", true
	case types.Uint8:
		return "0", "255", true
	}
	return "", "", false
}

func wrapFn(t types.Type) string {
	b, ok := t.Underlying().(*types.Basic)
	if !ok {
		return ""
	}
	switch b.Kind() {
	case types.Int, types.Int64:
		return "wrap64"
	case types.Int32:
		return "wrap32"
	case types.Int16:
		return "wrap16"
	case types.Int8:
		return "wrap8"
	case types.Uint, types.Uint64, types.Uintptr:
		return "wrapu64"
	case types.Uint32:
		return "wrapu32"
	case types.Uint16:
		return "wrapu16"
	case types.Uint8:
		return "wrapu8"
	}
	return ""
}
