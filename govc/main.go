package main

import (
	"encoding/json"
	"fmt"
	"os"
	"path/filepath"
	"sort"
	"strings"
	"sync"
	"time"
)

const verifDir = "/verif"

type PropConfig struct {
	Packages []string `json:"packages"`
	Level    string   `json:"level"`
	Standins []struct {
		Name  string   `json:"name"`
		Cmd   []string `json:"cmd"`
		Bound string   `json:"bound"`
		Tier  string   `json:"tier"` // "" both, "thorough" only in thorough
	} `json:"standins"`
	NotDecided []string `json:"not_decided"`
}

type OblResult struct {
	Obl *Obligation
	Res SolveResult
	OK  bool
}

func solveAll(obls []*Obligation, scratch string, timeoutS int, workers int) []*OblResult {
	out := make([]*OblResult, len(obls))
	var wg sync.WaitGroup
	ch := make(chan int)
	for w := 0; w < workers; w++ {
		wg.Add(1)
		go func() {
			defer wg.Done()
			for i := range ch {
				o := obls[i]
				var gv []string
				to := timeoutS
				if o.ExpectSat && (o.Kind == "vacuity-call" || strings.Contains(o.Name, "#reach.") || strings.Contains(o.Name, ".backedge.reach")) && to > 6 {
					to = 6 // reachability guards: inconclusive after a few seconds is acceptable
				}
				res := Solve(o.Query, scratch, o.Name, to, gv)
				if o.ExpectSat && o.AltQuery != "" && res.Status == "unsat" {
					// continuation unreachable: fine only if the call itself was unreachable
					alt := Solve(o.AltQuery, scratch, o.Name+".before", timeoutS, nil)
					if alt.Status == "unsat" {
						res.Status = "sat"
						res.Model = "(call site itself unreachable)"
					} else if alt.Status == "unknown" {
						res.Status = "unknown"
					}
				}
				ok := (res.Status == "unsat" && !o.ExpectSat) || (res.Status == "sat" && o.ExpectSat)
				if o.ExpectSat && res.Status == "unknown" && (strings.Contains(o.Name, "reach") || strings.HasSuffix(o.Name, ".continues")) {
					ok = true // reachability could not be decided either way: inconclusive, recorded as such
					res.Status = "unknown(inconclusive reachability)"
				}
				out[i] = &OblResult{Obl: o, Res: res, OK: ok}
			}
		}()
	}
	for i := range obls {
		ch <- i
	}
	close(ch)
	wg.Wait()
	return out
}

func main() {
	// type aliases (osmomath.Dec = sdkmath.LegacyDec) must be transparent: heap keys and
	// contract keys are derived from type names
	os.Setenv("GODEBUG", "gotypesalias=0")
	if len(os.Args) < 2 {
		fmt.Fprintln(os.Stderr, "usage: govc check <PROP> <quick|thorough> | govc vc <pkg-pattern> <func-substring> [-v]")
		os.Exit(2)
	}
	switch os.Args[1] {
	case "vc":
		cmdVC(os.Args[2:])
	case "check":
		os.Exit(cmdCheck(os.Args[2:]))
	case "standin":
		os.Exit(cmdStandin(os.Args[2:]))
	case "selftest":
		os.Exit(cmdSelftest(os.Args[2:]))
	default:
		fmt.Fprintln(os.Stderr, "unknown command")
		os.Exit(2)
	}
}

func scratchDir() string {
	d, err := os.MkdirTemp("", "govc-")
	if err != nil {
		panic(err)
	}
	return d
}

// cmdVC: development aid — verify the contracts whose key contains the substring.
func cmdVC(args []string) {
	e := NewEngine()
	if err := e.cs.LoadSpecDir(filepath.Join(verifDir, "specs")); err != nil {
		fmt.Println("specs:", err)
	}
	e.cs.LoadDir(filepath.Join(verifDir, "lemmas"), ".lem", false)
	if ov := os.Getenv("GOVC_OVERLAY"); ov != "" {
		var m map[string]string
		if err := readJSON(ov, &m); err == nil {
			e.overlay = map[string][]byte{}
			for k, v := range m {
				b, _ := os.ReadFile(v)
				e.overlay[k] = b
			}
		}
	}
	t0 := time.Now()
	if err := e.Load(strings.Split(args[0], ",")); err != nil {
		fmt.Println("load:", err)
		os.Exit(2)
	}
	fmt.Printf("loaded in %.1fs, %d contracts, %d functions indexed\n", time.Since(t0).Seconds(), len(e.cs.Funcs), len(e.funcs))
	for _, er := range e.cs.Errors {
		fmt.Println("contract error:", er)
	}
	sub := ""
	if len(args) > 1 {
		sub = args[1]
	}
	verbose := len(args) > 2 && args[2] == "-v"
	dump := len(args) > 2 && args[2] == "-ssa"
	scratch := scratchDir()
	keep := os.Getenv("GOVC_KEEP") != ""
	if !keep {
		defer os.RemoveAll(scratch)
	} else {
		fmt.Println("scratch:", scratch)
	}
	var keys []string
	for k, c := range e.cs.Funcs {
		if !c.Trusted && strings.Contains(k, sub) {
			keys = append(keys, k)
		}
	}
	sort.Strings(keys)
	total, good := 0, 0
	for _, k := range keys {
		fn := e.funcs[k]
		if fn == nil {
			fmt.Printf("%s: NO SUCH FUNCTION\n", k)
			continue
		}
		if dump {
			fn.WriteTo(os.Stdout)
		}
		obls, errs, notes := e.VerifyFunction(fn, e.cs.Funcs[k])
		for _, er := range errs {
			fmt.Printf("  ERROR %s\n", er)
		}
		if verbose {
			for _, n := range notes {
				fmt.Printf("  note: %s\n", n)
			}
		}
		to := 10
		if s := os.Getenv("GOVC_TIMEOUT"); s != "" {
			fmt.Sscanf(s, "%d", &to)
		}
		rs := solveAll(obls, scratch, to, 16)
		for _, r := range rs {
			total++
			if r.OK {
				good++
			}
			if !r.OK || verbose {
				fmt.Printf("  %-6s %s  [%s %.2fs] %s\n", map[bool]string{true: "ok", false: "FAIL"}[r.OK], r.Obl.Name, r.Res.Status, r.Res.TimeS, r.Obl.Src)
				if !r.OK && verbose && r.Res.Status == "sat" {
					fmt.Printf("      model: %v\n", e.extractModel(r, scratch))
				}
			}
		}
	}
	fmt.Printf("%d/%d obligations discharged over %d functions\n", good, total, len(keys))
}

func indent(s, p string) string {
	return p + strings.ReplaceAll(s, "\n", "\n"+p)
}

func modelSummary(r *OblResult) string {
	m := r.Res.Model
	if len(m) > 3000 {
		m = m[:3000] + "..."
	}
	return m
}

func writeJSON(path string, v any) error {
	b, err := json.MarshalIndent(v, "", " ")
	if err != nil {
		return err
	}
	return os.WriteFile(path, append(b, '\n'), 0o644)
}
