package main

import (
	"bytes"
	"encoding/json"
	"fmt"
	"os"
	"os/exec"
	"path/filepath"
	"regexp"
	"sort"
	"strconv"
	"strings"
	"time"
)

type KnownFinding struct {
	Property   string `json:"property"`
	Obligation string `json:"obligation"` // claim key
	What       string `json:"what"`
	Witness    string `json:"witness,omitempty"`
	Standin    string `json:"standin,omitempty"` // for findings of bounded stand-ins: the finding id it prints
}

type KnownFile struct {
	Findings []KnownFinding `json:"findings"`
	Fixed    []string       `json:"fixed"`
}

var reCallN = regexp.MustCompile(`call\d+\(`)
var rePanicN = regexp.MustCompile(`panic\d+\(`)
var reBlk = regexp.MustCompile(`\.?return@b\d+`)
var reAssertAt = regexp.MustCompile(`\.at_call\d+\(`)
var reDup = regexp.MustCompile(`~\d+$`)

// claimKey strips the parts of an obligation name that depend on instruction numbering.
func claimKey(name string) string {
	s := reCallN.ReplaceAllString(name, "call(")
	s = rePanicN.ReplaceAllString(s, "panic(")
	s = reBlk.ReplaceAllString(s, "")
	s = reAssertAt.ReplaceAllString(s, ".at_call(")
	s = reDup.ReplaceAllString(s, "")
	return s
}

type Evidence struct {
	PropertyID  string         `json:"property_id"`
	Tier        string         `json:"tier"`
	Seed        int            `json:"seed"`
	Level       string         `json:"level"`
	Coverage    map[string]any `json:"coverage"`
	Assumptions []string       `json:"assumptions"`
	WallS       float64        `json:"wall_s"`
	Violations  int            `json:"violations"`
}

func readJSON(path string, v any) error {
	b, err := os.ReadFile(path)
	if err != nil {
		return err
	}
	return json.Unmarshal(b, v)
}

func cmdCheck(args []string) int {
	if len(args) < 2 {
		fmt.Fprintln(os.Stderr, "usage: govc check <PROP> <quick|thorough> [--update-baseline]")
		return 2
	}
	prop, tier := args[0], args[1]
	update := len(args) > 2 && args[2] == "--update-baseline"
	seed := 0
	if s := os.Getenv("VERIF_SEED"); s != "" {
		seed, _ = strconv.Atoi(s)
	}
	t0 := time.Now()
	var cfg PropConfig
	if err := readJSON(filepath.Join(verifDir, "props", prop+".json"), &cfg); err != nil {
		fmt.Fprintln(os.Stderr, "config:", err)
		return 2
	}
	e := NewEngine()
	if err := e.cs.LoadSpecDir(filepath.Join(verifDir, "specs")); err != nil {
		fmt.Fprintln(os.Stderr, "specs:", err)
		return 2
	}
	if err := e.cs.LoadDir(filepath.Join(verifDir, "lemmas"), ".lem", false); err != nil {
		fmt.Fprintln(os.Stderr, "lemmas:", err)
		return 2
	}
	if ov := os.Getenv("GOVC_OVERLAY"); ov != "" {
		// selftest: {"<abs path>": "<file with replacement content>"}
		var m map[string]string
		if err := readJSON(ov, &m); err != nil {
			fmt.Fprintln(os.Stderr, "overlay:", err)
			return 2
		}
		e.overlay = map[string][]byte{}
		for k, v := range m {
			b, err := os.ReadFile(v)
			if err != nil {
				fmt.Fprintln(os.Stderr, "overlay:", err)
				return 2
			}
			e.overlay[k] = b
		}
	}
	if err := e.Load(cfg.Packages); err != nil {
		fmt.Fprintln(os.Stderr, "ENGINE FAULT: load:", err)
		return 2
	}
	if len(e.cs.Errors) > 0 {
		for _, er := range e.cs.Errors {
			fmt.Fprintln(os.Stderr, "contract error:", er)
		}
		return 2
	}
	loadS := time.Since(t0).Seconds()
	timeout := 30
	if tier == "thorough" {
		timeout = 120
	}
	scratch := scratchDir()
	defer os.RemoveAll(scratch)

	cons := e.ContractsFor(prop)
	var obls []*Obligation
	fnErrors := map[string][]string{}
	notes := map[string]bool{}
	var funcsUnder []string
	for _, c := range cons {
		fn := e.funcs[c.Key]
		if fn == nil {
			fnErrors[shortName(c.Key)] = []string{"contract target does not exist in the current source"}
			continue
		}
		funcsUnder = append(funcsUnder, shortName(c.Key))
		os, errs, ns := e.VerifyFunction(fn, c)
		if len(errs) > 0 {
			fnErrors[shortName(c.Key)] = errs
			continue
		}
		for _, n := range ns {
			notes[n] = true
		}
		obls = append(obls, os...)
	}
	// lemmas
	nLemma := 0
	for _, l := range e.cs.Lemmas {
		for _, p := range l.Props {
			if p == prop {
				lo, errs := e.LemmaObligations(l)
				if len(errs) > 0 {
					fnErrors["lemma:"+l.Name] = errs
				}
				obls = append(obls, lo...)
				nLemma += len(lo)
			}
		}
	}
	// ground obligations: global invariants evaluated on the values the real init() produced
	groundOK, groundFail := []string{}, []string{}
	usedPkgs := map[string]bool{}
	for _, c := range cons {
		if fn := e.funcs[c.Key]; fn != nil {
			x := &FnExec{fn: fn}
			for k := range x.usedGlobals() {
				for pkgPath := range e.cs.Globals {
					if strings.HasPrefix(k, pkgPath+".") {
						usedPkgs[pkgPath] = true
					}
				}
			}
		}
	}
	for _, pkgPath := range sortedKeys(usedPkgs) {
		okL, failL, err := e.GroundCheck(pkgPath, scratch)
		if err != nil {
			fmt.Fprintln(os.Stderr, "ENGINE FAULT:", err)
			return 2
		}
		for _, n := range okL {
			groundOK = append(groundOK, shortName(pkgPath)+"."+n)
		}
		for _, n := range failL {
			groundFail = append(groundFail, shortName(pkgPath)+"."+n)
		}
	}
	// canaries: deliberately false contracts that must NOT verify
	canaryObls, canaryNames := e.CanaryObligations(prop)
	allObls := append(append([]*Obligation{}, obls...), canaryObls...)
	results := solveAll(allObls, scratch, timeout, 12)
	// undecided answers are retried with a larger budget and little parallelism: a solver that
	// was merely starved of CPU must not turn into an alarm
	var retry []*Obligation
	var retryIdx []int
	for i, r := range results {
		if r.Res.Status == "unknown" {
			retry = append(retry, r.Obl)
			retryIdx = append(retryIdx, i)
		}
	}
	if len(retry) > 0 && len(retry) <= 40 {
		rr := solveAll(retry, scratch, timeout*4, 3)
		for j, r := range rr {
			r.Res.Tried = append(results[retryIdx[j]].Res.Tried, r.Res.Tried...)
			results[retryIdx[j]] = r
		}
	}
	mainRes := results[:len(obls)]
	canRes := results[len(obls):]

	// baseline
	basePath := filepath.Join(verifDir, "baseline", prop+".json")
	var baseline []string
	haveBase := readJSON(basePath, &baseline) == nil
	baseSet := map[string]bool{}
	for _, b := range baseline {
		baseSet[b] = true
	}
	var known KnownFile
	_ = readJSON(filepath.Join(verifDir, "known_findings.json"), &known)
	knownSet := map[string]KnownFinding{}
	for _, k := range known.Findings {
		if k.Property == prop {
			knownSet[k.Obligation] = k
		}
	}

	claimOK := map[string]bool{}
	claimSeen := map[string]bool{}
	bySolver := map[string]int{}
	solverTime := 0.0
	type slow struct {
		Name string  `json:"name"`
		S    float64 `json:"seconds"`
	}
	var slowest []slow
	var failed []*OblResult
	for _, r := range mainRes {
		k := claimKey(r.Obl.Name)
		if !claimSeen[k] {
			claimSeen[k] = true
			claimOK[k] = true
		}
		if !r.OK {
			claimOK[k] = false
			failed = append(failed, r)
		} else {
			bySolver[r.Res.Solver]++
		}
		solverTime += r.Res.TimeS
		slowest = append(slowest, slow{r.Obl.Name, r.Res.TimeS})
	}
	sort.Slice(slowest, func(i, j int) bool { return slowest[i].S > slowest[j].S })
	if len(slowest) > 5 {
		slowest = slowest[:5]
	}
	// engine faults
	engineFault := false
	for i, r := range canRes {
		if r.OK == true && !r.Obl.ExpectSat {
			// a canary obligation that verifies is fine individually; the canary as a whole
			// must have at least one failing obligation (checked below)
		}
		_ = i
	}
	canaryStatus := map[string]string{}
	{
		failedBy := map[string]bool{}
		for _, r := range canRes {
			if !r.OK && r.Res.Status == "sat" {
				failedBy[r.Obl.Func] = true
			}
		}
		for _, n := range canaryNames {
			if failedBy[n] {
				canaryStatus[n] = "refuted (as it must be)"
			} else {
				canaryStatus[n] = "NOT refuted: engine fault"
				engineFault = true
			}
		}
	}
	for _, r := range mainRes {
		if r.Res.Status == "error" {
			engineFault = true
			fmt.Fprintf(os.Stderr, "ENGINE FAULT: solver rejected %s: %s\n", r.Obl.Name, r.Res.Model)
		}
	}

	if update {
		var keys []string
		for k, ok := range claimOK {
			if _, isKnown := knownSet[k]; ok || isKnown {
				keys = append(keys, k)
			}
		}
		sort.Strings(keys)
		os.MkdirAll(filepath.Dir(basePath), 0o755)
		if err := writeJSON(basePath, keys); err != nil {
			fmt.Fprintln(os.Stderr, err)
			return 2
		}
		fmt.Printf("baseline for %s: %d claims written (%d obligations, %d failing and left unclaimed)\n", prop, len(keys), len(mainRes), len(failed))
		for _, r := range failed {
			fmt.Printf("  unclaimed: %s [%s] %s\n", r.Obl.Name, r.Res.Status, r.Obl.Src)
		}
		for f, errs := range fnErrors {
			fmt.Printf("  not verified: %s: %s\n", f, strings.Join(errs, "; "))
		}
		haveBase = true
		for _, k := range keys {
			baseSet[k] = true
		}
	}
	if !haveBase {
		fmt.Fprintln(os.Stderr, "ENGINE FAULT: no baseline for", prop)
		return 2
	}

	// decide
	replayDir := filepath.Join(verifDir, "out", "replay", prop)
	if d := os.Getenv("GOVC_REPLAY_DIR"); d != "" {
		replayDir = d
	}
	os.MkdirAll(replayDir, 0o755)
	nViol := 0
	var violLines []string
	var knownLines []string
	unclaimed := []string{}
	reported := map[string]bool{}
	discharged, claimedObls := 0, 0
	for _, r := range mainRes {
		k := claimKey(r.Obl.Name)
		if !baseSet[k] {
			if !r.OK {
				unclaimed = append(unclaimed, r.Obl.Name+" ["+r.Res.Status+"]")
			}
			continue
		}
		claimedObls++
		if r.OK {
			discharged++
			continue
		}
		if kf, ok := knownSet[k]; ok {
			if !reported[k] {
				knownLines = append(knownLines, fmt.Sprintf("KNOWN-FINDING: property=%s %s: %s", prop, k, kf.What))
				reported[k] = true
			}
			discharged++ // decided: recorded finding, not an open obligation
			continue
		}
		if reported[k] {
			continue
		}
		reported[k] = true
		nViol++
		path := filepath.Join(replayDir, sanitizeFile(r.Obl.Name)+".json")
		rep := e.Replay(r, scratch)
		rep["obligation"] = r.Obl.Name
		rep["clause"] = r.Obl.Src
		rep["solver_status"] = r.Res.Status
		rep["solver_tried"] = r.Res.Tried
		writeJSON(path, rep)
		line := fmt.Sprintf("VIOLATION property=%s replay=%s", prop, path)
		if rep["confirmed_on_real_code"] != true {
			line += " no-failing-input-found"
		}
		violLines = append(violLines, line)
	}
	for _, gf := range groundFail {
		nViol++
		path := filepath.Join(replayDir, "ground_"+sanitizeFile(gf)+".json")
		writeJSON(path, map[string]any{"ground_obligation": gf, "confirmed_on_real_code": true,
			"note": "the package-level value produced by the real init() does not satisfy the invariant every contract of the package assumes"})
		violLines = append(violLines, fmt.Sprintf("VIOLATION property=%s replay=%s", prop, path))
	}
	// functions that could not be analysed, or baseline claims with no obligation left
	for f, errs := range fnErrors {
		hasBase := false
		for b := range baseSet {
			if strings.HasPrefix(b, f+"#") || (strings.HasPrefix(f, "lemma:") && b == f) {
				hasBase = true
			}
		}
		if hasBase {
			nViol++
			path := filepath.Join(replayDir, sanitizeFile(f)+".undecided.json")
			writeJSON(path, map[string]any{"function": f, "undecided_because": errs,
				"note": "obligations of this function discharged on the baseline tree and can no longer be generated"})
			violLines = append(violLines, fmt.Sprintf("VIOLATION property=%s replay=%s no-failing-input-found", prop, path))
		} else {
			unclaimed = append(unclaimed, f+": "+strings.Join(errs, "; "))
		}
	}
	for b := range baseSet {
		if !claimSeen[b] && (strings.Contains(b, "#post") || strings.Contains(b, "#frame") || strings.HasPrefix(b, "lemma:")) {
			fn := strings.SplitN(b, "#", 2)[0]
			if _, bad := fnErrors[fn]; bad {
				continue
			}
			nViol++
			path := filepath.Join(replayDir, sanitizeFile(b)+".missing.json")
			writeJSON(path, map[string]any{"claim": b, "undecided_because": "no obligation with this claim is generated any more (contract clause or exit disappeared)"})
			violLines = append(violLines, fmt.Sprintf("VIOLATION property=%s replay=%s no-failing-input-found", prop, path))
		}
	}

	// bounded stand-ins
	var bounded []map[string]any
	for _, s := range cfg.Standins {
		if s.Tier == "thorough" && tier != "thorough" {
			continue
		}
		res := runStandin(prop, tier, seed, s.Name, s.Cmd, s.Bound, known)
		bounded = append(bounded, res.info)
		for _, l := range res.known {
			knownLines = append(knownLines, l)
		}
		for _, v := range res.violations {
			nViol++
			violLines = append(violLines, v)
		}
		if res.fault {
			engineFault = true
		}
	}

	if tf := os.Getenv("GOVC_TIMES"); tf != "" {
		var all []map[string]any
		for _, r := range mainRes {
			all = append(all, map[string]any{"o": r.Obl.Name, "k": r.Obl.Kind, "a": r.Res.Status, "s": r.Res.Solver, "t": r.Res.TimeS, "tried": r.Res.Tried})
		}
		writeJSON(tf, all)
	}
	// evidence
	var samples []map[string]any
	for i, r := range mainRes {
		if i%(len(mainRes)/6+1) == 0 {
			samples = append(samples, map[string]any{"obligation": r.Obl.Name, "kind": r.Obl.Kind, "clause": r.Obl.Src,
				"answer": r.Res.Status, "solver": r.Res.Solver, "seconds": r.Res.TimeS, "smt_bytes": len(r.Obl.Query)})
		}
	}
	trusted := []string{"govc itself (SSA->SMT translation, contract parser), go/ssa, z3/cvc5"}
	for k := range e.trusted {
		trusted = append(trusted, "assumed contract: "+shortName(k))
	}
	for k := range e.pureUsed {
		trusted = append(trusted, "assumed side-effect free, result unknown: "+k)
	}
	sort.Strings(trusted[1:])
	var assumptions []string
	for n := range notes {
		assumptions = append(assumptions, n)
	}
	sort.Strings(assumptions)
	assumptions = append(assumptions, "termination is not verified (except where a loop has a decreases clause)",
		"memory exhaustion, stack depth, gas, events, logs and telemetry are not modelled",
		"machine integers have exact Go wrap-around semantics; *big.Int values are unbounded mathematical integers",
		"initial heap is well formed: pointers stored in pre-existing objects point to pre-existing objects")
	assumptions = append(assumptions, cfg.NotDecided...)
	ev := Evidence{PropertyID: prop, Tier: tier, Seed: seed, Level: "proof", WallS: time.Since(t0).Seconds(), Violations: nViol,
		Assumptions: assumptions,
		Coverage: map[string]any{
			"obligations": claimedObls + len(groundOK) + len(groundFail), "discharged": discharged + len(groundOK),
			"checker_cmd":              fmt.Sprintf("/verif/bin/govc check %s %s", prop, tier),
			"trusted_base":             trusted,
			"functions_under_contract": funcsUnder,
			"functions":                len(funcsUnder),
			"lemma_obligations":        nLemma,
			"ground_obligations":       map[string]any{"checked_on_real_init": groundOK, "failed": groundFail},
			"by_solver":                bySolver,
			"solver_time_s":            solverTime,
			"load_time_s":              loadS,
			"slowest":                  slowest,
			"unclaimed":                unclaimed,
			"canaries":                 canaryStatus,
			"known_findings":           knownLines,
			"samples":                  samples,
			"bounded":                  bounded,
			"not_decided":              cfg.NotDecided,
			"explanation":              "obligations are generated from /repo's current source by symbolic execution of go/ssa against the //@ contracts in zz_verif_contracts.go (tag verif) and discharged by SMT; 'obligations' counts those whose claim is in the committed baseline, 'unclaimed' lists generated obligations outside it",
		}}
	evDir := filepath.Join(verifDir, "evidence")
	if d := os.Getenv("GOVC_EVIDENCE_DIR"); d != "" {
		evDir = d
	}
	os.MkdirAll(evDir, 0o755)
	if err := writeJSON(filepath.Join(evDir, prop+".json"), ev); err != nil {
		fmt.Fprintln(os.Stderr, err)
		return 2
	}
	for _, l := range knownLines {
		fmt.Println(l)
	}
	for _, l := range violLines {
		fmt.Println(l)
	}
	fmt.Printf("%s %s: %d/%d claimed obligations discharged over %d functions (%d lemma obligations), %d unclaimed, %d violations, %.1fs\n",
		prop, tier, discharged, claimedObls, len(funcsUnder), nLemma, len(unclaimed), nViol, time.Since(t0).Seconds())
	if nViol > 0 {
		return 1
	}
	if engineFault {
		fmt.Fprintln(os.Stderr, "ENGINE FAULT (see canaries / solver errors)")
		for n, s := range canaryStatus {
			fmt.Fprintln(os.Stderr, "  canary", n, s)
		}
		return 2
	}
	if nViol > 0 {
		return 1
	}
	return 0
}

type standinResult struct {
	info       map[string]any
	violations []string
	known      []string
	fault      bool
}

// runStandin runs a bounded stand-in command. Protocol: the command prints lines
//   STANDIN evaluations=<n> distinct=<n> rule=<text>
//   FAIL <finding-id> <description>      (one per failing input)
// and exits 0 (no failure), 1 (failures) or anything else (fault).
func runStandin(prop, tier string, seed int, name string, argv []string, bound string, known KnownFile) standinResult {
	t0 := time.Now()
	cmd := exec.Command(argv[0], argv[1:]...)
	cmd.Dir = verifDir
	cmd.Env = append(os.Environ(), "VERIF_TIER="+tier, fmt.Sprintf("VERIF_SEED=%d", seed), "VERIF_PROP="+prop)
	var out bytes.Buffer
	cmd.Stdout = &out
	cmd.Stderr = &out
	err := cmd.Run()
	res := standinResult{info: map[string]any{"name": name, "bound": bound, "label": "bounded (never counted as proved)", "wall_s": time.Since(t0).Seconds()}}
	code := 0
	if err != nil {
		if ee, ok := err.(*exec.ExitError); ok {
			code = ee.ExitCode()
		} else {
			code = 99
		}
	}
	knownIDs := map[string]KnownFinding{}
	for _, k := range known.Findings {
		if k.Property == prop && k.Standin != "" {
			knownIDs[k.Standin] = k
		}
	}
	replayDir := filepath.Join(verifDir, "out", "replay", prop)
	os.MkdirAll(replayDir, 0o755)
	for _, line := range strings.Split(out.String(), "\n") {
		if strings.HasPrefix(line, "STANDIN ") {
			for _, f := range strings.Fields(line)[1:] {
				if kv := strings.SplitN(f, "=", 2); len(kv) == 2 {
					if n, err := strconv.Atoi(kv[1]); err == nil {
						res.info[kv[0]] = n
					}
				}
			}
			if i := strings.Index(line, "rule="); i >= 0 {
				res.info["rule"] = line[i+5:]
			}
		}
		if strings.HasPrefix(line, "FAIL ") {
			parts := strings.SplitN(line, " ", 3)
			id := parts[1]
			desc := ""
			if len(parts) > 2 {
				desc = parts[2]
			}
			if k, ok := knownIDs[id]; ok {
				res.known = append(res.known, fmt.Sprintf("KNOWN-FINDING: property=%s %s: %s", prop, id, k.What))
				continue
			}
			path := filepath.Join(replayDir, "standin_"+sanitizeFile(name+"_"+id)+".json")
			writeJSON(path, map[string]any{"standin": name, "finding": id, "failing_input": desc, "confirmed_on_real_code": true})
			res.violations = append(res.violations, fmt.Sprintf("VIOLATION property=%s replay=%s", prop, path))
		}
	}
	if code != 0 && code != 1 {
		res.fault = true
		tail := out.String()
		if len(tail) > 2000 {
			tail = tail[len(tail)-2000:]
		}
		fmt.Fprintf(os.Stderr, "stand-in %s failed to run (exit %d):\n%s\n", name, code, tail)
	}
	if code == 1 && len(res.violations) == 0 && len(res.known) == 0 {
		res.fault = true
		fmt.Fprintf(os.Stderr, "stand-in %s exited 1 without FAIL lines\n", name)
	}
	res.info["failures"] = len(res.violations)
	return res
}

func cmdSelftest(args []string) int { return runSelftest(args) }
