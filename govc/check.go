package main

func cmdCheck(args []string) int    { return 2 }
func cmdSelftest(args []string) int { return 2 }
