package main

// Contract expression language: lexer, parser, AST.

import (
	"fmt"
	"math/big"
	"strings"
)

type CExpr interface{}

type (
	CNum    struct{ V *big.Int }
	CBool   struct{ V bool }
	CStr    struct{ V string }
	CIdent  struct{ Name string }
	CUnary  struct {
		Op string
		X  CExpr
	}
	CBinary struct {
		Op   string
		X, Y CExpr
	}
	CCall struct {
		Fn   string
		Args []CExpr
	}
	CSel struct {
		X    CExpr
		Name string
	}
	CIndex struct {
		X, I CExpr
	}
	CTern struct {
		C, A, B CExpr
	}
	CQuant struct {
		Forall bool
		Var    string
		Type   string
		Body   CExpr
		Ranged bool // forall k: lo..hi :: body — expanded statically
		Lo, Hi int64
	}
)

type tok struct {
	k string // id num str op eof
	s string
}

func lex(src string) ([]tok, error) {
	var out []tok
	i := 0
	ops := []string{"<==>", "==>", "::", "&&", "||", "==", "!=", "<=", ">=", ":=", "(", ")", "[", "]", "{", "}", ",", ".", "+", "-", "*", "/", "%", "<", ">", "!", "?", ":", "^"}
	for i < len(src) {
		ch := src[i]
		if ch == ' ' || ch == '\t' {
			i++
			continue
		}
		if ch == '-' && i+1 < len(src) && src[i+1] == '-' { // trailing comment
			break
		}
		if ch >= '0' && ch <= '9' {
			j := i
			for j < len(src) && (src[j] >= '0' && src[j] <= '9' || src[j] == '_') {
				j++
			}
			out = append(out, tok{"num", strings.ReplaceAll(src[i:j], "_", "")})
			i = j
			continue
		}
		if ch == '_' || (ch >= 'a' && ch <= 'z') || (ch >= 'A' && ch <= 'Z') {
			j := i
			for j < len(src) && (src[j] == '_' || src[j] == '$' || (src[j] >= 'a' && src[j] <= 'z') || (src[j] >= 'A' && src[j] <= 'Z') || (src[j] >= '0' && src[j] <= '9')) {
				j++
			}
			out = append(out, tok{"id", src[i:j]})
			i = j
			continue
		}
		if ch == '"' {
			j := i + 1
			for j < len(src) && src[j] != '"' {
				j++
			}
			if j >= len(src) {
				return nil, fmt.Errorf("unterminated string")
			}
			out = append(out, tok{"str", src[i+1 : j]})
			i = j + 1
			continue
		}
		matched := false
		for _, op := range ops {
			if strings.HasPrefix(src[i:], op) {
				out = append(out, tok{"op", op})
				i += len(op)
				matched = true
				break
			}
		}
		if !matched {
			return nil, fmt.Errorf("bad character %q in %q", ch, src)
		}
	}
	out = append(out, tok{"eof", ""})
	return out, nil
}

type parser struct {
	toks []tok
	p    int
}

func (p *parser) peek() tok { return p.toks[p.p] }
func (p *parser) next() tok { t := p.toks[p.p]; p.p++; return t }
func (p *parser) isOp(s string) bool {
	t := p.peek()
	return t.k == "op" && t.s == s
}
func (p *parser) expect(s string) error {
	if !p.isOp(s) {
		return fmt.Errorf("expected %q, got %q", s, p.peek().s)
	}
	p.p++
	return nil
}

func ParseCExpr(src string) (e CExpr, err error) {
	toks, err := lex(src)
	if err != nil {
		return nil, err
	}
	p := &parser{toks: toks}
	defer func() {
		if r := recover(); r != nil {
			err = fmt.Errorf("parse error in %q: %v", src, r)
		}
	}()
	e = p.parseExpr()
	if p.peek().k != "eof" {
		return nil, fmt.Errorf("trailing tokens at %q in %q", p.peek().s, src)
	}
	return e, nil
}

func (p *parser) parseExpr() CExpr {
	if t := p.peek(); t.k == "id" && (t.s == "forall" || t.s == "exists") {
		p.next()
		v := p.next()
		if v.k != "id" {
			panic("quantifier variable expected")
		}
		typ := "int"
		ranged := false
		var lo, hi int64
		if p.isOp(":") {
			p.next()
			if p.peek().k == "num" {
				lo = atoi64(p.next().s)
				if err := p.expect("."); err != nil {
					panic(err)
				}
				if err := p.expect("."); err != nil {
					panic(err)
				}
				hi = atoi64(p.next().s)
				ranged = true
			} else {
				typ = p.next().s
			}
		}
		if err := p.expect("::"); err != nil {
			panic(err)
		}
		body := p.parseExpr()
		return &CQuant{Forall: t.s == "forall", Var: v.s, Type: typ, Body: body, Ranged: ranged, Lo: lo, Hi: hi}
	}
	c := p.parseIff()
	if p.isOp("?") {
		p.next()
		a := p.parseExpr()
		if err := p.expect(":"); err != nil {
			panic(err)
		}
		b := p.parseExpr()
		return &CTern{c, a, b}
	}
	return c
}

func (p *parser) parseIff() CExpr {
	x := p.parseImpl()
	for p.isOp("<==>") {
		p.next()
		y := p.parseImpl()
		x = &CBinary{"<==>", x, y}
	}
	return x
}

func (p *parser) parseImpl() CExpr {
	x := p.parseOr()
	if p.isOp("==>") {
		p.next()
		var y CExpr
		if t := p.peek(); t.k == "id" && (t.s == "forall" || t.s == "exists") {
			y = p.parseExpr()
		} else {
			y = p.parseImpl()
		}
		return &CBinary{"==>", x, y}
	}
	return x
}

func (p *parser) parseOr() CExpr {
	x := p.parseAnd()
	for p.isOp("||") {
		p.next()
		x = &CBinary{"||", x, p.parseAnd()}
	}
	return x
}

func (p *parser) parseAnd() CExpr {
	x := p.parseCmp()
	for p.isOp("&&") {
		p.next()
		x = &CBinary{"&&", x, p.parseCmp()}
	}
	return x
}

func (p *parser) parseCmp() CExpr {
	x := p.parseAddE()
	for {
		t := p.peek()
		if t.k == "op" && (t.s == "==" || t.s == "!=" || t.s == "<" || t.s == "<=" || t.s == ">" || t.s == ">=") {
			p.next()
			y := p.parseAddE()
			x = &CBinary{t.s, x, y}
			continue
		}
		return x
	}
}

func (p *parser) parseAddE() CExpr {
	x := p.parseMulE()
	for p.isOp("+") || p.isOp("-") {
		op := p.next().s
		x = &CBinary{op, x, p.parseMulE()}
	}
	return x
}

func (p *parser) parseMulE() CExpr {
	x := p.parseUnary()
	for p.isOp("*") || p.isOp("/") || p.isOp("%") {
		op := p.next().s
		x = &CBinary{op, x, p.parseUnary()}
	}
	return x
}

func (p *parser) parseUnary() CExpr {
	if p.isOp("!") {
		p.next()
		return &CUnary{"!", p.parseUnary()}
	}
	if p.isOp("-") {
		p.next()
		return &CUnary{"-", p.parseUnary()}
	}
	return p.parsePow()
}

func (p *parser) parsePow() CExpr {
	x := p.parsePostfix()
	if p.isOp("^") {
		p.next()
		y := p.parseUnary()
		return &CBinary{"^", x, y}
	}
	return x
}

func (p *parser) parsePostfix() CExpr {
	x := p.parsePrimary()
	for {
		switch {
		case p.isOp("."):
			p.next()
			t := p.next()
			if t.k != "id" {
				panic("selector name expected")
			}
			x = &CSel{x, t.s}
		case p.isOp("["):
			p.next()
			i := p.parseExpr()
			if err := p.expect("]"); err != nil {
				panic(err)
			}
			x = &CIndex{x, i}
		case p.isOp("("):
			id, ok := x.(*CIdent)
			if !ok {
				panic("call of non-identifier")
			}
			p.next()
			var args []CExpr
			for !p.isOp(")") {
				args = append(args, p.parseExpr())
				if p.isOp(",") {
					p.next()
				}
			}
			p.next()
			x = &CCall{id.Name, args}
		default:
			return x
		}
	}
}

func (p *parser) parsePrimary() CExpr {
	t := p.next()
	switch t.k {
	case "num":
		b, _ := new(big.Int).SetString(t.s, 10)
		return &CNum{b}
	case "str":
		return &CStr{t.s}
	case "id":
		switch t.s {
		case "true":
			return &CBool{true}
		case "false":
			return &CBool{false}
		}
		return &CIdent{t.s}
	case "op":
		if t.s == "(" {
			e := p.parseExpr()
			if err := p.expect(")"); err != nil {
				panic(err)
			}
			return e
		}
	}
	panic(fmt.Sprintf("unexpected token %q", t.s))
}

func cexprString(e CExpr) string {
	switch e := e.(type) {
	case *CNum:
		return e.V.String()
	case *CBool:
		return fmt.Sprint(e.V)
	case *CStr:
		return fmt.Sprintf("%q", e.V)
	case *CIdent:
		return e.Name
	case *CUnary:
		return e.Op + cexprString(e.X)
	case *CBinary:
		return "(" + cexprString(e.X) + " " + e.Op + " " + cexprString(e.Y) + ")"
	case *CCall:
		var a []string
		for _, x := range e.Args {
			a = append(a, cexprString(x))
		}
		return e.Fn + "(" + strings.Join(a, ", ") + ")"
	case *CSel:
		return cexprString(e.X) + "." + e.Name
	case *CIndex:
		return cexprString(e.X) + "[" + cexprString(e.I) + "]"
	case *CTern:
		return "(" + cexprString(e.C) + " ? " + cexprString(e.A) + " : " + cexprString(e.B) + ")"
	case *CQuant:
		q := "exists"
		if e.Forall {
			q = "forall"
		}
		return q + " " + e.Var + ": " + e.Type + " :: " + cexprString(e.Body)
	}
	return "?"
}

func atoi64(s string) int64 {
	b, _ := new(big.Int).SetString(s, 10)
	return b.Int64()
}
