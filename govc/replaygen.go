package main

// Counterexample replay: turn a solver model into a generated in-package Go test that
// calls the REAL function from /repo and evaluates the violated contract clause on what
// it returned. The test is injected with `go test -overlay`; nothing is written to /repo.

import (
	"bytes"
	"context"
	"encoding/json"
	"fmt"
	"go/types"
	"os"
	"os/exec"
	"path/filepath"
	"regexp"
	"strings"
	"time"

	"golang.org/x/tools/go/packages"
	"golang.org/x/tools/go/ssa"
)

var reGetVal = regexp.MustCompile(`\(\s*([^\s()]+)\s+(\(-\s*\d+\)|-?\d+|true|false)\s*\)`)

// extractModel re-runs the failing query asking for the values of the input terms.
func (e *Engine) extractModel(r *OblResult, scratch string) map[string]string {
	out := map[string]string{}
	if len(r.Obl.ModelTerms) == 0 {
		return out
	}
	var names []string
	q := r.Obl.Query
	for i, mt := range r.Obl.ModelTerms {
		n := fmt.Sprintf("mt!%d", i)
		q += fmt.Sprintf("(declare-const %s Int)\n(assert (= %s %s))\n", n, n, mt[1])
		names = append(names, n)
	}
	res := Solve(q, scratch, "model_"+r.Obl.Name, 30, names)
	if res.Status != "sat" {
		return out
	}
	for _, m := range reGetVal.FindAllStringSubmatch(res.Model, -1) {
		for i, n := range names {
			if m[1] == n {
				v := strings.ReplaceAll(strings.ReplaceAll(strings.ReplaceAll(m[2], "(", ""), ")", ""), " ", "")
				out[r.Obl.ModelTerms[i][0]] = v
			}
		}
	}
	return out
}

type goExpr struct {
	s    string
	kind string // "int" (*big.Int value), "bool", "ptr" (*big.Int pointer), "wrap:<type>" wrapper value
}

type replayGen struct {
	params   map[string]types.Type
	results  map[string]types.Type
	old      bool
	err      string
	usesOld  map[string]bool
	postMode bool // identifiers' heap reads refer to the post state unless under old()
	scope    *types.Scope // package scope: package-level variables and constants (ground checks)
	locals   map[string]string // bound variables of expanded ranged quantifiers -> literal
	macro    map[string]goExpr // parameters of a 'define' being expanded
	defs     map[string]*Def
}

func wrapperKind(t types.Type) string {
	switch typeKey(t) {
	case "github.com/osmosis-labs/osmosis/osmomath.BigDec":
		return "BigDec"
	case "github.com/osmosis-labs/osmosis/osmomath.BigInt":
		return "BigInt"
	case "cosmossdk.io/math.LegacyDec":
		return "Dec"
	case "cosmossdk.io/math.Int":
		return "Int"
	case "*math/big.Int":
		return "ptr"
	}
	if typeKey(t) == "error" || typeKey(t) == "*cosmossdk.io/errors.Error" {
		return "error"
	}
	if b, ok := t.Underlying().(*types.Basic); ok {
		if b.Info()&types.IsString != 0 {
			return "mstr"
		}
		if b.Info()&types.IsInteger != 0 {
			return "mint"
		}
		if b.Info()&types.IsBoolean != 0 {
			return "mbool"
		}
	}
	return ""
}

func (g *replayGen) fail(f string, a ...any) goExpr {
	if g.err == "" {
		g.err = fmt.Sprintf(f, a...)
	}
	return goExpr{"nil", "int"}
}

// ptrOf: Go expression for the *big.Int inside a wrapper value expression
var replayInOsmomath = true

func ptrOf(expr, kind string) string {
	switch kind {
	case "BigDec", "BigInt":
		if !replayInOsmomath {
			if kind == "BigInt" {
				return "zzbigIntPtr(" + expr + ")"
			}
			return expr + ".BigIntMut()"
		}
		return expr + ".i"
	case "Dec", "Int":
		return expr + ".BigIntMut()"
	case "ptr":
		return expr
	}
	return "nil"
}

func (g *replayGen) compile(c CExpr) goExpr {
	switch c := c.(type) {
	case *CNum:
		return goExpr{fmt.Sprintf("zzbi(%q)", c.V.String()), "int"}
	case *CBool:
		return goExpr{fmt.Sprint(c.V), "bool"}
	case *CStr:
		return goExpr{fmt.Sprintf("%q", c.V), "str"}
	case *CIdent:
		if c.Name == "nil" {
			return goExpr{"nil", "nilptr"}
		}
		if m, ok := g.macro[c.Name]; ok {
			return m
		}
		if t, ok := g.params[c.Name]; ok {
			k := wrapperKind(t)
			switch k {
			case "mint":
				return goExpr{"zzmi(int64(p_" + c.Name + "))", "int"}
			case "mbool":
				return goExpr{"p_" + c.Name, "bool"}
			case "":
				return g.fail("parameter %s of unsupported type %s", c.Name, t)
			}
			if k == "mint" {
				return goExpr{"p_" + c.Name, "int"}
			}
			if k == "ptr" {
				return goExpr{"p_" + c.Name, "ptr"}
			}
			return goExpr{"p_" + c.Name, "wrap:" + k}
		}
		if t, ok := g.results[c.Name]; ok {
			k := wrapperKind(t)
			switch k {
			case "mint":
				return goExpr{"zzmi64(r_" + c.Name + ")", "int"}
			case "mbool":
				return goExpr{"r_" + c.Name, "bool"}
			case "error":
				return goExpr{"r_" + c.Name, "err"}
			case "":
				return g.fail("result %s of unsupported type %s", c.Name, t)
			}
			if k == "ptr" {
				return goExpr{"r_" + c.Name, "ptr"}
			}
			return goExpr{"r_" + c.Name, "wrap:" + k}
		}
		if lit, ok := g.locals[c.Name]; ok {
			return goExpr{fmt.Sprintf("zzbi(%q)", lit), "int"}
		}
		if m, ok := g.macro[c.Name]; ok {
			return m
		}
		if g.scope != nil {
			if obj := g.scope.Lookup(c.Name); obj != nil {
				t := obj.Type()
				if sl, ok := t.Underlying().(*types.Slice); ok {
					return goExpr{c.Name, "slice:" + wrapperKind(sl.Elem())}
				}
				k := wrapperKind(t)
				switch k {
				case "mint":
					return goExpr{"zzmi64(" + c.Name + ")", "int"}
				case "mbool":
					return goExpr{c.Name, "bool"}
				case "ptr":
					return goExpr{c.Name, "ptr"}
				case "error":
					return goExpr{c.Name, "err"}
				case "mstr":
					return goExpr{"string(" + c.Name + ")", "str"}
				case "":
					return g.fail("package-level %s of unsupported type %s", c.Name, t)
				}
				return goExpr{c.Name, "wrap:" + k}
			}
		}
		return g.fail("identifier %s not supported in replay", c.Name)
	case *CQuant:
		if !c.Ranged {
			return g.fail("unbounded quantifier in replay")
		}
		var parts []string
		if g.locals == nil {
			g.locals = map[string]string{}
		}
		for k := c.Lo; k <= c.Hi; k++ {
			g.locals[c.Var] = fmt.Sprint(k)
			parts = append(parts, "("+g.compile(c.Body).s+")")
		}
		delete(g.locals, c.Var)
		op := " && "
		if !c.Forall {
			op = " || "
		}
		return goExpr{"(" + strings.Join(parts, op) + ")", "bool"}
	case *CUnary:
		x := g.compile(c.X)
		if c.Op == "!" {
			return goExpr{"!(" + x.s + ")", "bool"}
		}
		return goExpr{"zzneg(" + x.s + ")", "int"}
	case *CTern:
		cond, a, b := g.compile(c.C), g.compile(c.A), g.compile(c.B)
		if a.kind == "bool" {
			return goExpr{fmt.Sprintf("zziteB(%s, %s, %s)", cond.s, a.s, b.s), "bool"}
		}
		return goExpr{fmt.Sprintf("zziteI(%s, %s, %s)", cond.s, a.s, b.s), "int"}
	case *CSel:
		x := g.compile(c.X)
		if strings.HasPrefix(x.kind, "wrap:") && c.Name == "i" {
			return goExpr{ptrOf(x.s, strings.TrimPrefix(x.kind, "wrap:")), "ptr"}
		}
		return g.fail("selector .%s not supported in replay", c.Name)
	case *CIndex:
		if id, ok := c.X.(*CIdent); ok && id.Name == "Big" {
			p := g.compile(c.I)
			if p.kind != "ptr" && !strings.HasPrefix(p.kind, "wrap:ptr") {
				if strings.HasPrefix(p.kind, "wrap:") {
					p = goExpr{ptrOf(p.s, strings.TrimPrefix(p.kind, "wrap:")), "ptr"}
				} else {
					return g.fail("Big[] of non-pointer")
				}
			}
			return g.valAt(p.s)
		}
		x := g.compile(c.X)
		if strings.HasPrefix(x.kind, "slice:") {
			i := g.compile(c.I)
			ek := strings.TrimPrefix(x.kind, "slice:")
			el := fmt.Sprintf("%s[int(%s.Int64())]", x.s, i.s)
			switch ek {
			case "mint":
				return goExpr{"zzmi64(" + el + ")", "int"}
			case "ptr":
				return goExpr{el, "ptr"}
			case "":
				return g.fail("slice element type not supported")
			}
			return goExpr{el, "wrap:" + ek}
		}
		return g.fail("indexing not supported in replay")
	case *CBinary:
		switch c.Op {
		case "&&", "||":
			a, b := g.compile(c.X), g.compile(c.Y)
			return goExpr{"(" + a.s + " " + c.Op + " " + b.s + ")", "bool"}
		case "==>":
			a, b := g.compile(c.X), g.compile(c.Y)
			return goExpr{"(!(" + a.s + ") || " + b.s + ")", "bool"}
		case "<==>":
			a, b := g.compile(c.X), g.compile(c.Y)
			return goExpr{"((" + a.s + ") == (" + b.s + "))", "bool"}
		case "^":
			x, okx := c.X.(*CNum)
			y, oky := c.Y.(*CNum)
			if okx && oky {
				return goExpr{fmt.Sprintf("zzpw(%q, %d)", x.V.String(), y.V.Int64()), "int"}
			}
			return g.fail("^ with non-literals")
		}
		a, b := g.compile(c.X), g.compile(c.Y)
		if c.Op == "==" || c.Op == "!=" {
			neg := ""
			if c.Op == "!=" {
				neg = "!"
			}
			if a.kind == "err" || b.kind == "err" {
				return goExpr{neg + "(" + a.s + " == " + b.s + ")", "bool"}
			}
			if a.kind == "str" && b.kind == "str" {
				return goExpr{neg + "(" + a.s + " == " + b.s + ")", "bool"}
			}
			isPtr := func(k string) bool { return k == "ptr" || k == "nilptr" }
			if isPtr(a.kind) || isPtr(b.kind) {
				as, bs := a.s, b.s
				if strings.HasPrefix(a.kind, "wrap:") {
					as = ptrOf(a.s, strings.TrimPrefix(a.kind, "wrap:"))
				}
				if strings.HasPrefix(b.kind, "wrap:") {
					bs = ptrOf(b.s, strings.TrimPrefix(b.kind, "wrap:"))
				}
				return goExpr{neg + "zzsamePtr(" + as + ", " + bs + ")", "bool"}
			}
			if a.kind == "bool" {
				return goExpr{neg + "((" + a.s + ") == (" + b.s + "))", "bool"}
			}
			if a.kind != "int" || b.kind != "int" {
				return g.fail("comparison of wrapper values not supported in replay")
			}
			return goExpr{neg + "(zzcmp(" + a.s + ", " + b.s + ") == 0)", "bool"}
		}
		if a.kind != "int" || b.kind != "int" {
			return g.fail("arithmetic on non-integers in replay: %s", cexprString(c))
		}
		switch c.Op {
		case "+":
			return goExpr{"zzadd(" + a.s + ", " + b.s + ")", "int"}
		case "-":
			return goExpr{"zzsub(" + a.s + ", " + b.s + ")", "int"}
		case "*":
			return goExpr{"zzmul(" + a.s + ", " + b.s + ")", "int"}
		case "/":
			return goExpr{"zztdiv(" + a.s + ", " + b.s + ")", "int"}
		case "%":
			return goExpr{"zztrem(" + a.s + ", " + b.s + ")", "int"}
		case "<", "<=", ">", ">=":
			return goExpr{"(zzcmp(" + a.s + ", " + b.s + ") " + c.Op + " 0)", "bool"}
		}
	case *CCall:
		switch c.Fn {
		case "len":
			x := g.compile(c.Args[0])
			if strings.HasPrefix(x.kind, "slice:") {
				return goExpr{"zzmi64(len(" + x.s + "))", "int"}
			}
			return g.fail("len of non-slice")
		case "old":
			saved := g.old
			g.old = true
			v := g.compile(c.Args[0])
			g.old = saved
			return v
		case "val":
			x := g.compile(c.Args[0])
			if x.kind == "int" {
				return x
			}
			if x.kind == "ptr" {
				return g.valAt(x.s)
			}
			if strings.HasPrefix(x.kind, "wrap:") {
				return g.valAt(ptrOf(x.s, strings.TrimPrefix(x.kind, "wrap:")))
			}
			return g.fail("val() of unsupported expression")
		case "fresh":
			x := g.compile(c.Args[0])
			if strings.HasPrefix(x.kind, "wrap:") {
				x = goExpr{ptrOf(x.s, strings.TrimPrefix(x.kind, "wrap:")), "ptr"}
			}
			return goExpr{"zzisFresh(" + x.s + ")", "bool"}
		case "abs", "sgn":
			return goExpr{"zz" + c.Fn + "I(" + g.compile(c.Args[0]).s + ")", "int"}
		case "min", "max", "tdiv", "trem", "fdiv", "cdiv", "rhe", "emod", "ediv":
			a, b := g.compile(c.Args[0]), g.compile(c.Args[1])
			name := c.Fn
			if name == "min" || name == "max" {
				name += "I"
			}
			return goExpr{"zz" + name + "(" + a.s + ", " + b.s + ")", "int"}
		case "pow10":
			return goExpr{"zzpow10(" + g.compile(c.Args[0]).s + ")", "int"}
		case "fits":
			k, ok := c.Args[1].(*CNum)
			if !ok {
				return g.fail("fits needs literal")
			}
			return goExpr{fmt.Sprintf("zzfits(%s, %d)", g.compile(c.Args[0]).s, k.V.Int64()), "bool"}
		case "bitlen":
			return goExpr{"zzbitlen(" + g.compile(c.Args[0]).s + ")", "int"}
		case "wrap64":
			return goExpr{"zzwrap64(" + g.compile(c.Args[0]).s + ")", "int"}
		case "wrapu64":
			return goExpr{"zzwrapu64(" + g.compile(c.Args[0]).s + ")", "int"}
		}
		if d, ok := g.defs[c.Fn]; ok && len(d.Params) == len(c.Args) {
			vals := make([]goExpr, len(c.Args))
			for i := range c.Args {
				vals[i] = g.compile(c.Args[i])
			}
			saved := g.macro
			g.macro = map[string]goExpr{}
			for k, v := range saved {
				g.macro[k] = v
			}
			for i, p := range d.Params {
				g.macro[p] = vals[i]
			}
			r := g.compile(d.Body)
			g.macro = saved
			return r
		}
		return g.fail("spec function %s not supported in replay", c.Fn)
	}
	return g.fail("expression not supported in replay: %s", cexprString(c))
}

// valAt: the integer at pointer expression p, in the state selected by g.old / postMode.
func (g *replayGen) valAt(p string) goExpr {
	if g.old || !g.postMode {
		return goExpr{"zzoldVal(" + p + ")", "int"}
	}
	return goExpr{"zznowVal(" + p + ")", "int"}
}

const replayHelpers = `
func zzbi(s string) *big.Int { b, _ := new(big.Int).SetString(s, 10); return b }
func zzmi(i int64) *big.Int { return big.NewInt(i) }
func zzmi64[T ~int | ~int64 | ~uint64 | ~int32 | ~uint32 | ~uint | ~int8 | ~uint8 | ~int16 | ~uint16](i T) *big.Int {
	if uint64(i) > 1<<63 && i > 0 { return new(big.Int).SetUint64(uint64(i)) }
	return big.NewInt(int64(i))
}
func zzpw(b string, e int64) *big.Int { return new(big.Int).Exp(zzbi(b), big.NewInt(e), nil) }
func zzpow10(e *big.Int) *big.Int { if e.Sign() < 0 { return big.NewInt(0) }; return new(big.Int).Exp(big.NewInt(10), e, nil) }
func zzadd(a, b *big.Int) *big.Int { return new(big.Int).Add(a, b) }
func zzsub(a, b *big.Int) *big.Int { return new(big.Int).Sub(a, b) }
func zzmul(a, b *big.Int) *big.Int { return new(big.Int).Mul(a, b) }
func zzneg(a *big.Int) *big.Int { return new(big.Int).Neg(a) }
func zzabsI(a *big.Int) *big.Int { return new(big.Int).Abs(a) }
func zzsgnI(a *big.Int) *big.Int { return big.NewInt(int64(a.Sign())) }
func zzcmp(a, b *big.Int) int { return a.Cmp(b) }
func zzminI(a, b *big.Int) *big.Int { if a.Cmp(b) <= 0 { return a }; return b }
func zzmaxI(a, b *big.Int) *big.Int { if a.Cmp(b) >= 0 { return a }; return b }
func zztdiv(a, b *big.Int) *big.Int { if b.Sign() == 0 { return big.NewInt(0) }; return new(big.Int).Quo(a, b) }
func zztrem(a, b *big.Int) *big.Int { if b.Sign() == 0 { return big.NewInt(0) }; return new(big.Int).Rem(a, b) }
func zzediv(a, b *big.Int) *big.Int { if b.Sign() == 0 { return big.NewInt(0) }; return new(big.Int).Div(a, b) }
func zzemod(a, b *big.Int) *big.Int { if b.Sign() == 0 { return big.NewInt(0) }; return new(big.Int).Mod(a, b) }
func zzfdiv(a, b *big.Int) *big.Int {
	if b.Sign() == 0 { return big.NewInt(0) }
	q, r := new(big.Int).QuoRem(a, b, new(big.Int))
	if r.Sign() != 0 && r.Sign() != b.Sign() { q.Sub(q, big.NewInt(1)) }
	return q
}
func zzcdiv(a, b *big.Int) *big.Int {
	if b.Sign() == 0 { return big.NewInt(0) }
	q, r := new(big.Int).QuoRem(a, b, new(big.Int))
	if r.Sign() != 0 && r.Sign() == b.Sign() { q.Add(q, big.NewInt(1)) }
	return q
}
func zzrhe(a, b *big.Int) *big.Int {
	if b.Sign() == 0 { return big.NewInt(0) }
	q, r := new(big.Int).QuoRem(a, b, new(big.Int))
	r2 := new(big.Int).Mul(new(big.Int).Abs(r), big.NewInt(2))
	c := r2.Cmp(new(big.Int).Abs(b))
	if c > 0 || (c == 0 && q.Bit(0) == 1) {
		if (a.Sign() >= 0) == (b.Sign() > 0) { q.Add(q, big.NewInt(1)) } else { q.Sub(q, big.NewInt(1)) }
	}
	return q
}
func zzfits(a *big.Int, k int) bool { return new(big.Int).Abs(a).Cmp(new(big.Int).Lsh(big.NewInt(1), uint(k))) < 0 }
func zzbitlen(a *big.Int) *big.Int { return big.NewInt(int64(a.BitLen())) }
func zzwrap64(a *big.Int) *big.Int { return big.NewInt(int64(new(big.Int).And(a, new(big.Int).SetUint64(^uint64(0))).Uint64())) }
func zzwrapu64(a *big.Int) *big.Int { return new(big.Int).And(a, new(big.Int).SetUint64(^uint64(0))) }
func zziteI(c bool, a, b *big.Int) *big.Int { if c { return a }; return b }
func zziteB(c bool, a, b bool) bool { if c { return a }; return b }
func zzsamePtr(a, b *big.Int) bool { return a == b }

var zzInputs []*big.Int
var zzOld = map[*big.Int]*big.Int{}
func zzoldVal(p *big.Int) *big.Int { if v, ok := zzOld[p]; ok { return v }; if p == nil { return big.NewInt(0) }; return new(big.Int).Set(p) }
func zznowVal(p *big.Int) *big.Int { if p == nil { return big.NewInt(0) }; return new(big.Int).Set(p) }
func zzisFresh(p *big.Int) bool { if p == nil { return false }; for _, q := range zzInputs { if q == p { return false } }; return true }
func zzsnap(p *big.Int) { if p != nil { zzInputs = append(zzInputs, p); zzOld[p] = new(big.Int).Set(p) } }
`

// replayOnRealCode generates and runs the test. Returns (confirmed, output, reason-if-not-run).
func (e *Engine) replayOnRealCode(r *OblResult, model map[string]string, scratch string) (bool, string, string) {
	con := e.cs.Funcs[r.Obl.ConKey]
	fn := e.funcs[r.Obl.ConKey]
	if con == nil || fn == nil {
		return false, "", "no contract/function for replay"
	}
	if fn.Pkg == nil || len(fn.FreeVars) > 0 {
		return false, "", "closures are not replayed"
	}
	sig := fn.Signature
	g := &replayGen{params: map[string]types.Type{}, results: map[string]types.Type{}, defs: e.cs.Defs}
	type par struct {
		name string
		t    types.Type
	}
	var ps []par
	if sig.Recv() != nil {
		ps = append(ps, par{con.Params[0], sig.Recv().Type()})
	}
	off := len(ps)
	for i := 0; i < sig.Params().Len(); i++ {
		if off+i >= len(con.Params) {
			return false, "", "parameter names missing"
		}
		ps = append(ps, par{con.Params[off+i], sig.Params().At(i).Type()})
	}
	ssaNames := []string{}
	for _, p := range fn.Params {
		ssaNames = append(ssaNames, p.Name())
	}
	var b strings.Builder
	pkgName := fn.Pkg.Pkg.Name()
	replayInOsmomath = fn.Pkg.Pkg.Path() == "github.com/osmosis-labs/osmosis/osmomath"
	fmt.Fprintf(&b, "%s", replayHeader(pkgName))
	fmt.Fprintf(&b, "func TestZZGovcReplay(t *testing.T) {\n")
	// pointers by model address
	ptrVars := map[string]string{}
	mkPtr := func(addr, val string) string {
		if addr == "0" || addr == "" {
			return "nil"
		}
		if v, ok := ptrVars[addr]; ok {
			return v
		}
		v := fmt.Sprintf("ptr%d", len(ptrVars))
		if val == "" {
			val = "0"
		}
		fmt.Fprintf(&b, "\t%s := zzbi(%q)\n", v, val)
		ptrVars[addr] = v
		return v
	}
	for i, p := range ps {
		g.params[p.name] = p.t
		k := wrapperKind(p.t)
		sn := ssaNames[i]
		leaf := model[sn+"#0"]
		bigv := model[sn+"#0->Big"]
		switch k {
		case "BigDec", "BigInt":
			if replayInOsmomath {
				fmt.Fprintf(&b, "\tp_%s := %s{i: %s}\n", p.name, k, mkPtr(leaf, bigv))
			} else if pv := mkPtr(leaf, bigv); pv == "nil" {
				fmt.Fprintf(&b, "\tp_%s := osmomath.%s{}\n", p.name, k)
			} else if k == "BigDec" {
				fmt.Fprintf(&b, "\tp_%s := osmomath.NewBigDecFromBigIntMutWithPrec(%s, 36)\n", p.name, pv)
			} else {
				fmt.Fprintf(&b, "\tp_%s := osmomath.NewBigIntFromBigInt(%s)\n", p.name, pv)
			}
		case "Dec":
			pv := mkPtr(leaf, bigv)
			if pv == "nil" {
				fmt.Fprintf(&b, "\tp_%s := sdkmathzz.LegacyDec{}\n", p.name)
			} else {
				fmt.Fprintf(&b, "\tp_%s := sdkmathzz.LegacyNewDecFromBigIntWithPrec(%s, 18)\n", p.name, pv)
			}
		case "Int":
			pv := mkPtr(leaf, bigv)
			if pv == "nil" {
				fmt.Fprintf(&b, "\tp_%s := sdkmathzz.Int{}\n", p.name)
			} else {
				fmt.Fprintf(&b, "\tp_%s := sdkmathzz.NewIntFromBigIntMut(%s)\n", p.name, pv)
			}
		case "ptr":
			fmt.Fprintf(&b, "\tp_%s := %s\n", p.name, mkPtr(leaf, bigv))
		case "mint":
			if leaf == "" {
				leaf = "0"
			}
			fmt.Fprintf(&b, "\tp_%s := %s(zzbi(%q).%s())\n", p.name, types.TypeString(p.t, replayQual(fn.Pkg.Pkg)), leaf, map[bool]string{true: "Uint64", false: "Int64"}[isUnsignedT(p.t)])
		case "mbool":
			fmt.Fprintf(&b, "\tp_%s := %v\n", p.name, leaf == "1")
		default:
			return false, "", fmt.Sprintf("parameter type %s is not supported by the replay generator", p.t)
		}
		if k == "BigDec" || k == "BigInt" || k == "Dec" || k == "Int" || k == "ptr" {
			fmt.Fprintf(&b, "\tzzsnap(%s)\n", ptrOf("p_"+p.name, k))
		}
	}
	// results
	rs := sig.Results()
	var rnames []string
	for i := 0; i < rs.Len(); i++ {
		n := fmt.Sprintf("res%d", i)
		if i < len(con.Results) && con.Results[i] != "_" {
			n = con.Results[i]
		} else if rs.Len() == 1 {
			n = "result"
		}
		g.results[n] = rs.At(i).Type()
		if rs.Len() == 1 {
			g.results["result"] = rs.At(i).Type()
		}
		rnames = append(rnames, n)
		fmt.Fprintf(&b, "\tvar r_%s %s\n", n, types.TypeString(rs.At(i).Type(), replayQual(fn.Pkg.Pkg)))
	}
	// the call
	var callArgs []string
	for _, p := range ps[off:] {
		callArgs = append(callArgs, "p_"+p.name)
	}
	callee := fn.Name()
	if sig.Recv() != nil {
		callee = "p_" + ps[0].name + "." + fn.Name()
	}
	var lhs []string
	for _, n := range rnames {
		lhs = append(lhs, "r_"+n)
	}
	assign := ""
	if len(lhs) > 0 {
		assign = strings.Join(lhs, ", ") + " = "
	}
	fmt.Fprintf(&b, "\tpanicked := false\n\tvar pv any\n\tfunc() {\n\t\tdefer func() { if r := recover(); r != nil { panicked = true; pv = r } }()\n\t\t%s%s(%s)\n\t}()\n", assign, callee, strings.Join(callArgs, ", "))
	for _, n := range rnames {
		fmt.Fprintf(&b, "\t_ = r_%s\n", n)
	}
	// what to check
	violated := ""
	switch {
	case r.Obl.Kind == "post" && r.Obl.Clause != nil:
		g.postMode = true
		ex := g.compile(r.Obl.Clause)
		if rs.Len() == 1 && len(con.Results) == 1 && con.Results[0] != "result" {
			// "result" alias handled through g.results; generated var name is r_<name>
		}
		violated = fmt.Sprintf("!panicked && !(%s)", ex.s)
	case r.Obl.Kind == "panic" && con.PanicsIff != nil:
		g.postMode = false
		ex := g.compile(con.PanicsIff.E)
		violated = fmt.Sprintf("panicked != (%s)", ex.s)
	case r.Obl.Kind == "panic":
		violated = "panicked"
	case r.Obl.Kind == "frame":
		// every input integer outside the modifies list keeps its value
		mod := map[string]bool{}
		g.postMode = false
		for _, m := range con.Modifies {
			if ix, ok := m.(*CIndex); ok {
				p := g.compile(ix.I)
				if strings.HasPrefix(p.kind, "wrap:") {
					p.s = ptrOf(p.s, strings.TrimPrefix(p.kind, "wrap:"))
				}
				mod[p.s] = true
			}
		}
		var ex []string
		for m := range mod {
			ex = append(ex, "q == "+m)
		}
		cond := "false"
		if len(ex) > 0 {
			cond = strings.Join(ex, " || ")
		}
		fmt.Fprintf(&b, "\tframeBroken := false\n\tfor _, q := range zzInputs { if %s { continue }; if q.Cmp(zzOld[q]) != 0 { frameBroken = true } }\n", cond)
		violated = "!panicked && frameBroken"
	default:
		return false, "", "obligation kind " + r.Obl.Kind + " is not replayed"
	}
	if g.err != "" {
		return false, "", "clause not expressible in the replay generator: " + g.err
	}
	fmt.Fprintf(&b, "\tviolated := %s\n", violated)
	fmt.Fprintf(&b, "\tfmt.Printf(\"ZZREPLAY violated=%%v panicked=%%v panic=%%v\\n\", violated, panicked, pv)\n")
	for _, n := range rnames {
		fmt.Fprintf(&b, "\tfmt.Printf(\"ZZRESULT %s=%%v\\n\", r_%s)\n", n, n)
	}
	fmt.Fprintf(&b, "}\n")
	src := strings.ReplaceAll(b.String(), "r_result", "r_"+firstOr(rnames, "result"))
	return e.runOverlayTest(fn, src, scratch)
}

func firstOr(a []string, d string) string {
	if len(a) > 0 {
		return a[0]
	}
	return d
}

// runOverlayTest injects src as an extra in-package test file of fn's package and runs it.
func (e *Engine) runOverlayTest(fn *ssa.Function, src string, scratch string) (bool, string, string) {
	var dir string
	for _, p := range e.initial {
		if p.PkgPath == fn.Pkg.Pkg.Path() && len(p.GoFiles) > 0 {
			dir = filepath.Dir(p.GoFiles[0])
		}
	}
	if dir == "" {
		return false, "", "package directory not found"
	}
	testFile := filepath.Join(scratch, "zz_govc_replay_test.go")
	if err := os.WriteFile(testFile, []byte(src), 0o644); err != nil {
		return false, "", err.Error()
	}
	repl := map[string]string{filepath.Join(dir, "zz_govc_replay_test.go"): testFile}
	// code edited through the engine overlay (selftest) must also be what the replay runs
	for f, content := range e.overlay {
		of := filepath.Join(scratch, "ov_"+filepath.Base(f))
		os.WriteFile(of, content, 0o644)
		repl[f] = of
	}
	// the application package does not build here without the emptied statik file replaced
	statik := filepath.Join(scratch, "statik.go")
	os.WriteFile(statik, []byte("package statik\n"), 0o644)
	repl[filepath.Join(repoDir, "client/docs/statik/statik.go")] = statik
	ov, _ := json.Marshal(map[string]any{"Replace": repl})
	ovFile := filepath.Join(scratch, "overlay.json")
	os.WriteFile(ovFile, ov, 0o644)
	ctx, cancel := context.WithTimeout(context.Background(), 400*time.Second)
	defer cancel()
	cmd := exec.CommandContext(ctx, "go", "test", "-overlay", ovFile, "-vet=off", "-count=1", "-v", "-timeout", "120s", "-run", "^TestZZGovcReplay$", ".")
	cmd.Dir = dir
	cmd.Env = append(os.Environ(), "GOFLAGS=", "GOPROXY=off", "GOSUMDB=off", "GOTOOLCHAIN=local")
	var out bytes.Buffer
	cmd.Stdout = &out
	cmd.Stderr = &out
	_ = cmd.Run()
	txt := out.String()
	if len(txt) > 4000 {
		txt = txt[:4000]
	}
	if strings.Contains(txt, "ZZREPLAY violated=true") {
		return true, txt, ""
	}
	if strings.Contains(txt, "ZZREPLAY violated=false") {
		return false, txt, "the model does not violate the clause on the real code (it lives in an abstracted part of the encoding)"
	}
	return false, txt, "replay test did not run to completion"
}

func replayQual(self *types.Package) types.Qualifier {
	return func(p *types.Package) string {
		if p == self {
			return ""
		}
		if p.Path() == "cosmossdk.io/math" {
			return "sdkmathzz"
		}
		if p.Path() == "github.com/osmosis-labs/osmosis/osmomath" {
			return "osmomath"
		}
		return p.Name()
	}
}

// GroundCheck evaluates every global invariant declared for package path on the values the
// package's real init() produced (generated in-package test through -overlay). Exact: the
// invariants are closed formulas, nothing is quantified.
func (e *Engine) GroundCheck(pkgPath string, scratch string) (ok []string, failed []string, err error) {
	specs := e.cs.Globals[pkgPath]
	if len(specs) == 0 {
		return nil, nil, nil
	}
	var pkg *packages.Package
	packages.Visit(e.initial, nil, func(p *packages.Package) {
		if p.PkgPath == pkgPath {
			pkg = p
		}
	})
	if pkg == nil || pkg.Types == nil {
		return nil, nil, fmt.Errorf("package %s not loaded", pkgPath)
	}
	var b strings.Builder
	replayInOsmomath = pkgPath == "github.com/osmosis-labs/osmosis/osmomath"
	fmt.Fprintf(&b, "%s", replayHeader(pkg.Types.Name()))
	fmt.Fprintf(&b, "func TestZZGovcGround(t *testing.T) {\n")
	for _, sp := range specs {
		g := &replayGen{params: map[string]types.Type{}, results: map[string]types.Type{}, scope: pkg.Types.Scope(), postMode: true, defs: e.cs.Defs}
		ex := g.compile(sp.Inv.E)
		if g.err != "" {
			fmt.Fprintf(&b, "\tfmt.Println(\"ZZGROUND unsupported %s: %s\")\n", sp.Name, strings.ReplaceAll(g.err, "\"", "'"))
			continue
		}
		fmt.Fprintf(&b, "\tfunc() {\n\t\tdefer func() { if r := recover(); r != nil { fmt.Println(\"ZZGROUND fail %s (panic)\") } }()\n\t\tif %s { fmt.Println(\"ZZGROUND ok %s\") } else { fmt.Println(\"ZZGROUND fail %s\") }\n\t}()\n", sp.Name, ex.s, sp.Name, sp.Name)
	}
	fmt.Fprintf(&b, "}\n")
	dir := filepath.Dir(pkg.GoFiles[0])
	out, rerr := e.runOverlayTestIn(dir, b.String(), scratch, "TestZZGovcGround")
	for _, l := range strings.Split(out, "\n") {
		l = strings.TrimSpace(l)
		if strings.HasPrefix(l, "ZZGROUND ok ") {
			ok = append(ok, strings.TrimPrefix(l, "ZZGROUND ok "))
		} else if strings.HasPrefix(l, "ZZGROUND ") {
			failed = append(failed, strings.TrimPrefix(l, "ZZGROUND "))
		}
	}
	if len(ok)+len(failed) != len(specs) {
		if len(out) > 2000 {
			out = out[:2000]
		}
		return ok, failed, fmt.Errorf("ground test for %s did not complete (%v): %s", pkgPath, rerr, out)
	}
	return ok, failed, nil
}

func (e *Engine) runOverlayTestIn(dir, src, scratch, testName string) (string, error) {
	testFile := filepath.Join(scratch, "zz_"+testName+"_test.go")
	if err := os.WriteFile(testFile, []byte(src), 0o644); err != nil {
		return "", err
	}
	repl := map[string]string{filepath.Join(dir, "zz_govc_ground_test.go"): testFile}
	for f, content := range e.overlay {
		of := filepath.Join(scratch, "ovg_"+filepath.Base(f))
		os.WriteFile(of, content, 0o644)
		repl[f] = of
	}
	statik := filepath.Join(scratch, "statik.go")
	os.WriteFile(statik, []byte("package statik\n"), 0o644)
	repl[filepath.Join(repoDir, "client/docs/statik/statik.go")] = statik
	ov, _ := json.Marshal(map[string]any{"Replace": repl})
	ovFile := filepath.Join(scratch, "overlay_ground.json")
	os.WriteFile(ovFile, ov, 0o644)
	ctx, cancel := context.WithTimeout(context.Background(), 900*time.Second)
	defer cancel()
	cmd := exec.CommandContext(ctx, "go", "test", "-overlay", ovFile, "-vet=off", "-count=1", "-v", "-timeout", "600s", "-run", "^"+testName+"$", ".")
	cmd.Dir = dir
	cmd.Env = append(os.Environ(), "GOFLAGS=", "GOPROXY=off", "GOSUMDB=off", "GOTOOLCHAIN=local")
	var out bytes.Buffer
	cmd.Stdout = &out
	cmd.Stderr = &out
	err := cmd.Run()
	return out.String(), err
}

func replayHeader(pkgName string) string {
	imp := ""
	extra := ""
	if !replayInOsmomath {
		imp = "\tosmomath \"github.com/osmosis-labs/osmosis/osmomath\"\n"
		extra = "var _ = osmomath.NewBigDec\nfunc zzbigIntPtr(i osmomath.BigInt) *big.Int { if i.IsNil() { return nil }; return i.BigInt() }\n"
	}
	return fmt.Sprintf("package %s\n\nimport (\n\t\"fmt\"\n\t\"math/big\"\n\t\"testing\"\n\tsdkmathzz \"cosmossdk.io/math\"\n%s)\n\nvar _ = sdkmathzz.NewInt\n%s%s\n", pkgName, imp, extra, replayHelpers)
}
