package main

import (
	"fmt"
	"go/constant"
	"go/token"
	"go/types"
	"math/big"
	"strings"

	"golang.org/x/tools/go/ssa"
)

var _ = big.NewInt

func (x *FnExec) value(v ssa.Value) Val {
	if val, ok := x.vals[v]; ok {
		return val
	}
	switch v := v.(type) {
	case *ssa.Const:
		return x.constVal(v)
	case *ssa.Global:
		return IntV(x.globalAddr(v))
	case *ssa.Function:
		return IntV(Lit(int64(x.eng.funcID(v))))
	case *ssa.Builtin:
		return IntV("0")
	}
	x.errorf("value of %T %s not available (use before def?)", v, v.Name())
	nv := x.freshVal("undef", v.Type(), true)
	x.vals[v] = nv
	return nv
}

func (x *FnExec) constVal(c *ssa.Const) Val {
	t := c.Type()
	if c.Value == nil {
		return x.zero(t)
	}
	switch c.Value.Kind() {
	case constant.Bool:
		if constant.BoolVal(c.Value) {
			return BoolV("true")
		}
		return BoolV("false")
	case constant.Int:
		b, _ := new(big.Int).SetString(c.Value.ExactString(), 10)
		return IntV(LitBig(b))
	case constant.String:
		return IntV(x.strConst(constant.StringVal(c.Value)))
	case constant.Float:
		x.ctx.Note("floating-point constant abstracted to an unknown")
		return IntV(x.ctx.Named("float:"+c.Value.ExactString(), SInt))
	}
	x.errorf("unsupported constant %s", c)
	return x.zero(t)
}

func (x *FnExec) setVal(v ssa.Value, val Val) {
	x.vals[v] = x.nameVal(v.Name(), v.Type(), val)
}

func isBoolT(t types.Type) bool {
	b, ok := t.Underlying().(*types.Basic)
	return ok && b.Info()&types.IsBoolean != 0
}
func isStringT(t types.Type) bool {
	b, ok := t.Underlying().(*types.Basic)
	return ok && b.Info()&types.IsString != 0
}
func isFloatT(t types.Type) bool {
	b, ok := t.Underlying().(*types.Basic)
	return ok && b.Info()&(types.IsFloat|types.IsComplex) != 0
}
func isUnsignedT(t types.Type) bool {
	b, ok := t.Underlying().(*types.Basic)
	return ok && b.Info()&types.IsUnsigned != 0
}

func (x *FnExec) wrap(t types.Type, term Term) Term {
	if w := wrapFn(t); w != "" {
		return app(w, term)
	}
	return term
}

// execInstr executes one instruction; returns false when the block ends here.
func (x *FnExec) execInstr(b *ssa.BasicBlock, in ssa.Instruction, st *State) bool {
	switch in := in.(type) {
	case *ssa.DebugRef:
		return true
	case *ssa.BinOp:
		x.setVal(in, x.binop(in, st))
	case *ssa.UnOp:
		x.setVal(in, x.unop(in, st))
	case *ssa.Alloc:
		el := in.Type().(*types.Pointer).Elem()
		addr := x.allocate(st, x.mem.Size(el))
		x.store(st, addr, el, x.zero(el))
		x.vals[in] = IntV(addr)
		x.nonNil[addr] = true
		if !in.Heap || capturedOnlyByDeferred(in) {
			x.locals = append(x.locals, localAlloc{in, addr, el})
		}
	case *ssa.Store:
		addr := x.value(in.Addr)
		x.derefCheck(st, addr.T, "store")
		el := in.Addr.Type().Underlying().(*types.Pointer).Elem()
		sv := x.coerce(x.value(in.Val), el)
		if a := rootAlloc(in.Addr); a == nil || a.Heap {
			x.noteEscape(sv) // a pointer written to memory others can read
		} else if len(x.prov) > 0 {
			// kept in a stack variable: a later load yields a term without provenance, so give the graph up
			for _, l := range sv.Flatten() {
				if !l.B {
					if r := x.provOf(l.T); r != nil {
						r.escaped = true
					}
				}
			}
		}
		x.storeL(st, addr.T, el, sv, x.leavesOfPtr(in.Addr, el))
	case *ssa.FieldAddr:
		base := x.value(in.X)
		x.derefCheck(st, base.T, "field address")
		pt := in.X.Type().Underlying().(*types.Pointer).Elem()
		off := x.mem.FieldOffset(pt, in.Field)
		x.setVal(in, IntV(Add(base.T, Lit(int64(off)))))
		x.derived[x.vals[in].T] = base.T
		x.ptrLeaves[in] = x.mem.FieldLeaves(pt, in.Field)
		x.checkFieldAddrEscape(in)
	case *ssa.Field:
		base := x.value(in.X)
		if !base.IsComp() {
			x.errorf("Field of non-composite value %s", in.X.Name())
			x.setVal(in, x.freshVal("fld", in.Type(), true))
		} else {
			x.vals[in] = base.F[in.Field]
		}
	case *ssa.IndexAddr:
		x.indexAddr(in, st)
	case *ssa.Index:
		x.indexVal(in, st)
	case *ssa.Slice:
		x.sliceOp(in, st)
	case *ssa.MakeSlice:
		l := x.value(in.Len).T
		c := x.value(in.Cap).T
		el := in.Type().Underlying().(*types.Slice).Elem()
		sz := x.mem.Size(el)
		x.panicIf(st, Or(Lt(l, "0"), Lt(c, l)), "makeslice: len out of range")
		ptr := st.alloc
		st.alloc = x.ctx.Define("alloc", SInt, Add(st.alloc, Add(Mul(c, Lit(int64(sz))), "1")))
		// zero-initialised elements
		x.zeroRange(st, el, ptr, Mul(c, Lit(int64(sz))))
		x.setVal(in, Comp(IntV(ptr), IntV(l), IntV(c)))
	case *ssa.MakeMap:
		addr := x.allocate(st, 1)
		mk := "map:" + typeKey(in.Type())
		mt := in.Type().Underlying().(*types.Map)
		// empty map: no key present, length 0
		pin := x.getHeap(st, "mapin:"+typeKey(in.Type()), true)
		st.heaps["mapin:"+typeKey(in.Type())] = x.ctx.Define("H_mapin", "(Array Int (Array Int Bool))", Sto(pin, addr, "((as const (Array Int Bool)) false)"))
		ml := x.getHeap(st, "maplen:"+typeKey(in.Type()), false)
		st.heaps["maplen:"+typeKey(in.Type())] = x.ctx.Define("H_maplen", SArrI, Sto(ml, addr, "0"))
		_ = mk
		_ = mt
		x.vals[in] = IntV(addr)
	case *ssa.MapUpdate:
		x.mapUpdate(in, st)
	case *ssa.Lookup:
		x.lookup(in, st)
	case *ssa.Extract:
		tup := x.value(in.Tuple)
		if !tup.IsComp() || in.Index >= len(tup.F) {
			x.errorf("Extract from non-tuple")
			x.setVal(in, x.freshVal("ext", in.Type(), true))
		} else {
			x.vals[in] = tup.F[in.Index]
		}
	case *ssa.Convert:
		x.setVal(in, x.convert(in, st))
	case *ssa.ChangeType:
		x.vals[in] = x.coerce(x.value(in.X), in.Type())
	case *ssa.ChangeInterface:
		x.vals[in] = x.value(in.X)
	case *ssa.MakeInterface:
		x.noteEscape(x.value(in.X))
		x.setVal(in, x.makeInterface(in.X.Type(), x.value(in.X)))
	case *ssa.TypeAssert:
		x.typeAssert(in, st)
	case *ssa.MakeClosure:
		// closure value: identity of the function plus bindings, recorded for calls
		fn := in.Fn.(*ssa.Function)
		for _, b := range in.Bindings {
			x.noteEscape(x.value(b))
		}
		id := x.allocate(st, 1)
		x.eng.closureMu.Lock()
		x.eng.closures[closureKey{x, id}] = closureInfo{fn: fn, bindings: in.Bindings}
		x.eng.closureMu.Unlock()
		x.closureOf(in, fn)
		x.vals[in] = IntV(id)
	case *ssa.Call:
		res, ok := x.call(in, in.Common(), st)
		if in.Type() != nil {
			if tup, isTup := in.Type().(*types.Tuple); isTup && tup.Len() == 0 {
				// no value
			} else {
				x.setVal(in, res)
			}
		}
		if !ok {
			return false
		}
	case *ssa.Defer:
		x.deferStack = append(x.deferStack, deferred{instr: in, reach: st.reach})
		x.ctx.Note(fmt.Sprintf("%s: defer encountered", x.fnName()))
	case *ssa.RunDefers:
		x.runDefers(st)
	case *ssa.Go:
		x.errorf("go statement: out of subset")
	case *ssa.Send, *ssa.Select:
		x.errorf("channel operation: out of subset")
	case *ssa.Range:
		x.rangeInit(in, st)
	case *ssa.Next:
		x.rangeNext(in, st)
	case *ssa.If:
		c := x.value(in.Cond).T
		x.edge[[2]int{b.Index, b.Succs[0].Index}] = c
		x.edge[[2]int{b.Index, b.Succs[1].Index}] = Not(c)
		x.checkBackEdges(b, st)
		return false
	case *ssa.Jump:
		x.edge[[2]int{b.Index, b.Succs[0].Index}] = "true"
		x.checkBackEdges(b, st)
		return false
	case *ssa.Return:
		var rs []Val
		for i, r := range in.Results {
			rs = append(rs, x.coerce(x.value(r), x.fn.Signature.Results().At(i).Type()))
		}
		x.rets = append(x.rets, exitRec{st: st.clone(), results: rs, what: fmt.Sprintf("return@b%d", b.Index), blk: b})
		return false
	case *ssa.Panic:
		pv := x.value(in.X)
		ptyp := ""
		if pv.IsComp() && len(pv.F) == 2 {
			ptyp = pv.F[0].T
		}
		x.panics = append(x.panics, exitRec{st: st.clone(), what: "explicit panic", ptyp: ptyp, final: x.inDefers, nDefers: len(x.deferStack)})
		return false
	default:
		x.errorf("unsupported instruction %T: %s", in, in)
		if v, ok := in.(ssa.Value); ok {
			x.setVal(v, x.freshVal("unk", v.Type(), true))
		}
	}
	return true
}

func (x *FnExec) closureOf(in *ssa.MakeClosure, fn *ssa.Function) {}

// coerce adapts a value's shape when a nil constant of interface/slice type etc. is
// used; shapes are structural so normally nothing changes.
func (x *FnExec) coerce(v Val, t types.Type) Val {
	want := len(x.mem.Leaves(t))
	have := len(v.Flatten())
	if want == have {
		return v
	}
	if have == 1 && v.T == "0" {
		return x.zero(t)
	}
	return v
}

func (x *FnExec) allocate(st *State, n int) Term {
	addr := st.alloc
	st.alloc = x.ctx.Define("alloc", SInt, Add(st.alloc, Lit(int64(n))))
	return addr
}

func (x *FnExec) zeroRange(st *State, el types.Type, ptr, n Term) {
	for _, l := range x.mem.Leaves(el) {
		old := x.getHeap(st, l.Key, l.Bool)
		nh := x.ctx.Fresh("Hz_"+l.Key, x.heapSort(l.Key))
		bv := x.ctx.boundVar("a")
		zero := "0"
		if l.Bool {
			zero = "false"
		}
		x.ctx.Assert(fmt.Sprintf("(forall ((%s Int)) (! (= (select %s %s) (ite (and (>= %s %s) (< %s (+ %s %s))) %s (select %s %s))) :pattern ((select %s %s))))",
			bv, nh, bv, bv, ptr, bv, ptr, n, zero, old, bv, nh, bv))
		st.heaps[l.Key] = nh
	}
}

// panicIf records a panic source and continues under its negation.
func (x *FnExec) panicIf(st *State, cond Term, what string) {
	x.panicIfTyp(st, cond, what, "")
}

func (x *FnExec) panicIfTyp(st *State, cond Term, what string, ptyp Term) {
	if cond == "false" {
		return
	}
	ps := st.clone()
	ps.reach = x.ctx.Define("R_panic", SBool, And(st.reach, cond))
	x.panics = append(x.panics, exitRec{st: ps, what: what, ptyp: ptyp, final: x.inDefers, nDefers: len(x.deferStack)})
	st.reach = x.ctx.Define("R", SBool, And(st.reach, Not(cond)))
}

func (x *FnExec) leavesOfPtr(p ssa.Value, el types.Type) []Leaf {
	if l, ok := x.ptrLeaves[p]; ok {
		return l
	}
	return x.mem.Leaves(el)
}

// a pointer to a non-struct field must only be loaded from / stored to directly:
// anywhere else it would be read through the cell heap of its type.
func (x *FnExec) checkFieldAddrEscape(in *ssa.FieldAddr) {
	ft := in.Type().Underlying().(*types.Pointer).Elem()
	if _, isStruct := ft.Underlying().(*types.Struct); isStruct && !isOpaque(ft) {
		return
	}
	if in.Referrers() == nil {
		return
	}
	for _, r := range *in.Referrers() {
		switch r := r.(type) {
		case *ssa.DebugRef:
		case *ssa.UnOp:
		case *ssa.Store:
			if r.Val == ssa.Value(in) {
				x.errorf("address of field %s escapes (stored)", in.Name())
			}
		default:
			x.errorf("address of scalar field escapes through %T: out of subset", r)
		}
	}
}

func (x *FnExec) derefCheck(st *State, addr Term, what string) {
	if x.nonNil[addr] {
		return
	}
	if isNum, ok := isNumeral(addr); ok && isNum.Sign() > 0 {
		return
	}
	// fresh allocations are never nil: addresses derived from alloc are > 0
	x.panicIf(st, Eq(addr, "0"), "nil dereference ("+what+")")
}

func (x *FnExec) checkBackEdges(b *ssa.BasicBlock, st *State) {
	for _, s := range b.Succs {
		if !x.backEdge[[2]int{b.Index, s.Index}] {
			continue
		}
		ord := x.loopOrd[s]
		ls := x.con.Loops[ord]
		if ls == nil {
			continue
		}
		cond := x.edge[[2]int{b.Index, s.Index}]
		reach := x.ctx.Define("R_back", SBool, And(st.reach, cond))
		idx := predIndex(s, b)
		env := x.loopEnv(s, st, func(p *ssa.Phi) Val { return x.value(p.Edges[idx]) })
		if len(ls.Invariants) > 0 {
			x.obligeSat(fmt.Sprintf("loop%d.backedge.reach", ord), "vacuity", "the end of the loop body is reachable under the invariant", reach)
		}
		for k, inv := range ls.Invariants {
			x.oblige(fmt.Sprintf("loop%d.inv%d.preserve", ord, k+1), "loop-preserve", inv.Src, reach, env.EvalBool(inv.E))
		}
		if ls.Decreases != nil {
			hst := x.headerSt[s]
			envH := x.loopEnv(s, hst, func(p *ssa.Phi) Val { return x.vals[p] })
			d0 := envH.scalar(envH.Eval(ls.Decreases), "decreases")
			d1 := env.scalar(env.Eval(ls.Decreases), "decreases")
			x.oblige(fmt.Sprintf("loop%d.decreases", ord), "loop-decreases", cexprString(ls.Decreases), reach, And(Ge(d0, "0"), Lt(d1, d0)))
		}
		if ls.ModGiven {
			// frame of the loop: heaps differ from the header state only at the listed locations
			hst := x.headerSt[s]
			envH := x.loopEnv(s, hst, func(p *ssa.Phi) Val { return x.vals[p] })
			x.frameObligation(fmt.Sprintf("loop%d.frame", ord), reach, hst.heaps, st.heaps, ls.Modifies, envH, hst.alloc, false)
		}
	}
}

// ---------- arithmetic ----------

func (x *FnExec) binop(in *ssa.BinOp, st *State) Val {
	a, b := x.value(in.X), x.value(in.Y)
	t := in.X.Type()
	switch in.Op {
	case token.EQL, token.NEQ:
		var eq Term
		a, b = x.coerce(a, t), x.coerce(b, t)
		if len(a.Flatten()) != len(b.Flatten()) {
			// nil constant against composite
			if isNilConst(in.Y) {
				eq = x.nilTest(a, t)
			} else if isNilConst(in.X) {
				eq = x.nilTest(b, in.Y.Type())
			} else {
				x.errorf("comparison of different shapes")
				eq = x.ctx.Fresh("cmp", SBool)
			}
		} else if isNilConst(in.Y) {
			eq = x.nilTest(a, t)
		} else if isNilConst(in.X) {
			eq = x.nilTest(b, in.Y.Type())
		} else {
			fa, fb := a.Flatten(), b.Flatten()
			var cs []Term
			for i := range fa {
				cs = append(cs, Eq(fa[i].T, fb[i].T))
			}
			eq = And(cs...)
			if isFloatT(t) {
				eq = x.ctx.Fresh("fcmp", SBool)
			}
		}
		if in.Op == token.NEQ {
			return BoolV(Not(eq))
		}
		return BoolV(eq)
	}
	if isBoolT(t) {
		switch in.Op {
		case token.AND, token.LAND:
			return BoolV(And(a.T, b.T))
		case token.OR, token.LOR:
			return BoolV(Or(a.T, b.T))
		}
	}
	if isFloatT(t) {
		x.ctx.Note("floating-point arithmetic abstracted to unknowns")
		if isBoolT(in.Type()) {
			return BoolV(x.ctx.Fresh("fcmp", SBool))
		}
		return IntV(x.ctx.Fresh("flt", SInt))
	}
	if isStringT(t) {
		switch in.Op {
		case token.ADD:
			return IntV(app("strcat", a.T, b.T))
		case token.LSS, token.LEQ, token.GTR, token.GEQ:
			x.ctx.Note("string ordering abstracted")
			return BoolV(x.ctx.Fresh("scmp", SBool))
		}
	}
	switch in.Op {
	case token.LSS:
		return BoolV(Lt(a.T, b.T))
	case token.LEQ:
		return BoolV(Le(a.T, b.T))
	case token.GTR:
		return BoolV(Gt(a.T, b.T))
	case token.GEQ:
		return BoolV(Ge(a.T, b.T))
	case token.ADD:
		return IntV(x.wrap(in.Type(), Add(a.T, b.T)))
	case token.SUB:
		return IntV(x.wrap(in.Type(), Sub(a.T, b.T)))
	case token.MUL:
		return IntV(x.wrap(in.Type(), Mul(a.T, b.T)))
	case token.QUO:
		x.panicIf(st, Eq(b.T, "0"), "integer division by zero")
		return IntV(x.wrap(in.Type(), x.ctx.TDiv(a.T, b.T)))
	case token.REM:
		x.panicIf(st, Eq(b.T, "0"), "integer division by zero")
		return IntV(x.ctx.TRem(a.T, b.T))
	case token.SHL:
		if k, ok := isNumeral(b.T); ok && k.IsInt64() && k.Int64() >= 0 && k.Int64() < 256 {
			return IntV(x.wrap(in.Type(), Mul(a.T, Pow2(int(k.Int64())))))
		}
	case token.SHR:
		if k, ok := isNumeral(b.T); ok && k.IsInt64() && k.Int64() >= 0 && k.Int64() < 256 {
			// arithmetic shift = floor division
			return IntV(app("div", a.T, Pow2(int(k.Int64()))))
		}
	case token.AND:
		if k, ok := isNumeral(b.T); ok && isUnsignedT(in.Type()) {
			// x & (2^n - 1)
			k1 := new(big.Int).Add(k, big.NewInt(1))
			if k1.BitLen() > 0 && new(big.Int).And(k1, k).Sign() == 0 {
				return IntV(app("mod", a.T, k1.String()))
			}
		}
	}
	x.ctx.Note(fmt.Sprintf("bit operation %s abstracted to an unknown", in.Op))
	return x.freshVal("bitop", in.Type(), true)
}

func isNilConst(v ssa.Value) bool {
	c, ok := v.(*ssa.Const)
	if !ok || c.Value != nil {
		return false
	}
	switch c.Type().Underlying().(type) {
	case *types.Pointer, *types.Slice, *types.Interface, *types.Map, *types.Chan, *types.Signature:
		return true
	case *types.Basic:
		return c.Type().Underlying().(*types.Basic).Kind() == types.UntypedNil || c.Type().Underlying().(*types.Basic).Kind() == types.UnsafePointer
	}
	return false // zero value of a struct/array: compared field by field
}

func (x *FnExec) nilTest(v Val, t types.Type) Term {
	switch t.Underlying().(type) {
	case *types.Slice, *types.Interface:
		return Eq(v.F[0].T, "0")
	}
	if v.IsComp() {
		x.errorf("nil test on composite")
		return "false"
	}
	return Eq(v.T, "0")
}

func (x *FnExec) unop(in *ssa.UnOp, st *State) Val {
	a := x.value(in.X)
	switch in.Op {
	case token.NOT:
		return BoolV(Not(a.T))
	case token.SUB:
		if isFloatT(in.Type()) {
			return IntV(x.ctx.Fresh("flt", SInt))
		}
		return IntV(x.wrap(in.Type(), Neg(a.T)))
	case token.MUL: // load
		if g, ok := in.X.(*ssa.Global); ok {
			if lit, ok := x.globalLiteral(g, st); ok {
				return IntV(lit)
			}
		}
		x.derefCheck(st, a.T, "load")
		el := in.X.Type().Underlying().(*types.Pointer).Elem()
		return x.loadL(st, a.T, el, x.leavesOfPtr(in.X, el))
	case token.XOR:
		if isUnsignedT(in.Type()) {
			_, hi, _ := intRange(in.Type())
			return IntV(Sub(hi, a.T))
		}
		return IntV(Sub(Neg(a.T), "1"))
	case token.ARROW:
		x.errorf("channel receive: out of subset")
	}
	return x.freshVal("unop", in.Type(), true)
}

func (x *FnExec) convert(in *ssa.Convert, st *State) Val {
	from, to := in.X.Type(), in.Type()
	a := x.value(in.X)
	_, fromInt := intRangeOK(from)
	_, toInt := intRangeOK(to)
	switch {
	case fromInt && toInt:
		return IntV(x.wrap(to, a.T))
	case isFloatT(from) || isFloatT(to):
		x.ctx.Note("floating-point conversion abstracted")
		return x.freshVal("fconv", to, true)
	case isStringT(to) && fromInt:
		return IntV(app("uf1", "1001", a.T))
	case isStringT(from):
		// string -> []byte: the content is not modelled; the new slice remembers which string it
		// was made from (uf_strOfBytes(ptr, len) == the string), so contracts can follow a
		// denomination through key building
		v := x.freshVal("sconv", to, true)
		if fl := v.Flatten(); len(fl) == 3 && !a.IsComp() {
			f := x.ctx.UF("uf_strOfBytes", 2, false)
			x.ctx.Assert(Implies(st.reach, Eq(app(f, fl[0].T, fl[1].T), a.T)))
		}
		x.ctx.Note("string -> []byte conversion: content abstracted, origin remembered")
		return v
	case isStringT(to):
		x.ctx.Note("[]byte -> string conversion abstracted to an unknown")
		return x.freshVal("sconv", to, true)
	}
	if len(x.mem.Leaves(from)) == len(x.mem.Leaves(to)) {
		return a
	}
	x.ctx.Note(fmt.Sprintf("conversion %s -> %s abstracted", from, to))
	return x.freshVal("conv", to, true)
}

func intRangeOK(t types.Type) (string, bool) {
	lo, _, ok := intRange(t)
	return lo, ok
}

// ---------- interfaces ----------

func (x *FnExec) makeInterface(t types.Type, v Val) Val {
	tid := Lit(int64(x.eng.typeID(t)))
	flat := v.Flatten()
	if len(flat) == 1 && !flat[0].B {
		return Comp(IntV(tid), IntV(flat[0].T))
	}
	if len(flat) == 1 && flat[0].B {
		return Comp(IntV(tid), IntV(Ite(flat[0].T, "1", "0")))
	}
	// boxed composite: an injective encoding is not modelled; the payload is a fresh id
	// tied to the leaves through an uninterpreted function where small
	if len(flat) == 2 && !flat[0].B && !flat[1].B {
		return Comp(IntV(tid), IntV(app("uf1", flat[0].T, flat[1].T)))
	}
	return Comp(IntV(tid), IntV(x.ctx.Fresh("box", SInt)))
}

func (x *FnExec) typeAssert(in *ssa.TypeAssert, st *State) {
	v := x.value(in.X)
	var ok Term
	var res Val
	if ifc, isIface := in.AssertedType.Underlying().(*types.Interface); isIface {
		if types.Implements(in.X.Type(), ifc) {
			// the static type already satisfies the interface: only nil fails
			ok = Not(Eq(v.F[0].T, "0"))
		} else {
			ok = x.ctx.Fresh("implements", SBool)
			x.ctx.Assert(Implies(ok, Not(Eq(v.F[0].T, "0"))))
		}
		res = v
	} else {
		tid := Lit(int64(x.eng.typeID(in.AssertedType)))
		ok = Eq(v.F[0].T, tid)
		leaves := x.mem.Leaves(in.AssertedType)
		if len(leaves) == 1 && !leaves[0].Bool {
			res = x.mem.Shape(in.AssertedType, []Val{IntV(v.F[1].T)})
		} else if len(leaves) == 1 {
			res = BoolV(Eq(v.F[1].T, "1"))
		} else {
			res = x.freshVal("unbox", in.AssertedType, true)
		}
	}
	if in.CommaOk {
		zero := x.zero(in.AssertedType)
		if len(zero.Flatten()) == len(res.Flatten()) {
			res = x.iteVal(ok, res, zero)
		}
		x.setVal(in, Comp(res, BoolV(ok)))
		return
	}
	x.panicIf(st, Not(ok), "type assertion failed")
	x.setVal(in, res)
}

// ---------- slices, arrays, maps ----------

func (x *FnExec) indexAddr(in *ssa.IndexAddr, st *State) {
	base := x.value(in.X)
	idx := x.value(in.Index).T
	if _, isNum := isNumeral(idx); !isNum {
		x.addIdxTerm(idx)
	}
	switch u := in.X.Type().Underlying().(type) {
	case *types.Slice:
		sz := x.mem.Size(u.Elem())
		x.panicIf(st, Or(Lt(idx, "0"), Ge(idx, base.F[1].T)), "index out of range")
		x.setVal(in, IntV(Add(base.F[0].T, Mul(idx, Lit(int64(sz))))))
		if x.vals[in].T != base.F[0].T {
			x.derived[x.vals[in].T] = base.F[0].T
		}
	case *types.Pointer:
		arr := u.Elem().Underlying().(*types.Array)
		sz := x.mem.Size(arr.Elem())
		x.derefCheck(st, base.T, "array index")
		x.panicIf(st, Or(Lt(idx, "0"), Ge(idx, Lit(arr.Len()))), "index out of range")
		x.setVal(in, IntV(Add(base.T, Mul(idx, Lit(int64(sz))))))
	default:
		x.errorf("IndexAddr on %s", in.X.Type())
		x.setVal(in, x.freshVal("ia", in.Type(), true))
	}
}

func (x *FnExec) indexVal(in *ssa.Index, st *State) {
	base := x.value(in.X)
	idx := x.value(in.Index)
	switch u := in.X.Type().Underlying().(type) {
	case *types.Array:
		if base.IsComp() {
			if k, ok := isNumeral(idx.T); ok && k.IsInt64() && int(k.Int64()) < len(base.F) {
				x.vals[in] = base.F[k.Int64()]
				return
			}
		}
		_ = u
	case *types.Basic: // string index
		x.ctx.Note("string indexing abstracted to an unknown byte")
		x.panicIf(st, Or(Lt(idx.T, "0"), Ge(idx.T, app("strlen", base.T))), "string index out of range")
		x.setVal(in, x.freshVal("sb", in.Type(), true))
		return
	}
	x.ctx.Note("array-value indexing abstracted")
	x.setVal(in, x.freshVal("ix", in.Type(), true))
}

func (x *FnExec) sliceOp(in *ssa.Slice, st *State) {
	base := x.value(in.X)
	var ptr, ln, cp Term
	var sz int
	switch u := in.X.Type().Underlying().(type) {
	case *types.Slice:
		ptr, ln, cp = base.F[0].T, base.F[1].T, base.F[2].T
		sz = x.mem.Size(u.Elem())
	case *types.Pointer:
		arr := u.Elem().Underlying().(*types.Array)
		x.derefCheck(st, base.T, "slice of array")
		ptr, ln, cp = base.T, Lit(arr.Len()), Lit(arr.Len())
		sz = x.mem.Size(arr.Elem())
	case *types.Basic:
		// string slicing: abstract
		x.ctx.Note("string slicing abstracted to an unknown string")
		lo, hi := "0", app("strlen", base.T)
		if in.Low != nil {
			lo = x.value(in.Low).T
		}
		if in.High != nil {
			hi = x.value(in.High).T
		}
		x.panicIf(st, Or(Lt(lo, "0"), Gt(lo, hi), Gt(hi, app("strlen", base.T))), "slice bounds out of range")
		r := x.ctx.Fresh("substr", SInt)
		x.ctx.Assert(And(Ge(r, "0"), Eq(app("strlen", r), Sub(hi, lo))))
		x.setVal(in, IntV(r))
		return
	default:
		x.errorf("Slice on %s", in.X.Type())
		x.setVal(in, x.freshVal("sl", in.Type(), true))
		return
	}
	lo, hi, mx := "0", ln, cp
	if in.Low != nil {
		lo = x.value(in.Low).T
	}
	if in.High != nil {
		hi = x.value(in.High).T
	}
	if in.Max != nil {
		mx = x.value(in.Max).T
	}
	x.panicIf(st, Or(Lt(lo, "0"), Gt(lo, hi), Gt(hi, mx), Gt(mx, cp)), "slice bounds out of range")
	x.setVal(in, Comp(IntV(Add(ptr, Mul(lo, Lit(int64(sz))))), IntV(Sub(hi, lo)), IntV(Sub(mx, lo))))
	if np := x.vals[in].F[0].T; np != ptr {
		x.derived[np] = ptr
	}
	if in.Low != nil {
		x.addSliceOffset(lo)
	}
}

func (x *FnExec) mapKeyTerm(v Val) (Term, bool) {
	flat := v.Flatten()
	if len(flat) == 1 && !flat[0].B {
		return flat[0].T, true
	}
	return "", false
}

func (x *FnExec) mapUpdate(in *ssa.MapUpdate, st *State) {
	m := x.value(in.Map)
	mt := in.Map.Type().Underlying().(*types.Map)
	k, ok := x.mapKeyTerm(x.value(in.Key))
	vleaves := x.mem.Leaves(mt.Elem())
	x.panicIf(st, Eq(m.T, "0"), "assignment to entry in nil map")
	tk := typeKey(in.Map.Type())
	if !ok || len(vleaves) != 1 {
		x.ctx.Note("map with composite key/value: update havocs the map")
		st.heaps["map:"+tk] = x.ctx.Fresh("Hmap", x.heapSortMap(tk, false))
		st.heaps["mapin:"+tk] = x.ctx.Fresh("Hmapin", "(Array Int (Array Int Bool))")
		return
	}
	isB := vleaves[0].Bool
	x.heapBool["map:"+tk] = isB
	hv := x.getHeap(st, "map:"+tk, isB)
	hin := x.getHeap(st, "mapin:"+tk, true)
	hl := x.getHeap(st, "maplen:"+tk, false)
	val := x.value(in.Value).Flatten()[0].T
	wasIn := Sel(Sel(hin, m.T), k)
	st.heaps["maplen:"+tk] = x.ctx.Define("H_maplen", SArrI, Sto(hl, m.T, Add(Sel(hl, m.T), Ite(wasIn, "0", "1"))))
	st.heaps["map:"+tk] = x.ctx.Define("H_map", x.heapSort("map:"+tk), Sto(hv, m.T, Sto(Sel(hv, m.T), k, val)))
	st.heaps["mapin:"+tk] = x.ctx.Define("H_mapin", "(Array Int (Array Int Bool))", Sto(hin, m.T, Sto(Sel(hin, m.T), k, "true")))
}

func (x *FnExec) heapSortMap(tk string, isBool bool) string {
	if isBool {
		return "(Array Int (Array Int Bool))"
	}
	return "(Array Int (Array Int Int))"
}

func (x *FnExec) lookup(in *ssa.Lookup, st *State) {
	if _, isStr := in.X.Type().Underlying().(*types.Basic); isStr {
		idx := x.value(in.Index).T
		base := x.value(in.X).T
		x.panicIf(st, Or(Lt(idx, "0"), Ge(idx, app("strlen", base))), "string index out of range")
		x.ctx.Note("string indexing abstracted to an unknown byte")
		x.setVal(in, x.freshVal("sb", in.Type(), true))
		return
	}
	m := x.value(in.X)
	mt := in.X.Type().Underlying().(*types.Map)
	tk := typeKey(in.X.Type())
	k, ok := x.mapKeyTerm(x.value(in.Index))
	vleaves := x.mem.Leaves(mt.Elem())
	var res Val
	var present Term
	if !ok || len(vleaves) != 1 {
		x.ctx.Note("map with composite key/value: lookup yields an unknown")
		res = x.freshVal("mv", mt.Elem(), true)
		present = x.ctx.Fresh("mapok", SBool)
	} else {
		isB := vleaves[0].Bool
		x.heapBool["map:"+tk] = isB
		hv := x.getHeap(st, "map:"+tk, isB)
		hin := x.getHeap(st, "mapin:"+tk, true)
		present = And(Not(Eq(m.T, "0")), Sel(Sel(hin, m.T), k))
		raw := Sel(Sel(hv, m.T), k)
		zero := "0"
		if isB {
			zero = "false"
		}
		t := Ite(present, raw, zero)
		if isB {
			res = BoolV(t)
		} else {
			res = x.mem.Shape(mt.Elem(), []Val{IntV(t)})
			if vleaves[0].IsPtr {
				// stored pointers of pre-existing maps point to pre-existing objects
				h0 := x.initHeap("map:"+tk, false)
				x.ctx.Assert(Implies(Lt(m.T, x.entry.alloc), And(Ge(Sel(Sel(h0, m.T), k), "0"), Lt(Sel(Sel(h0, m.T), k), x.entry.alloc))))
			}
		}
	}
	if in.CommaOk {
		x.setVal(in, Comp(res, BoolV(present)))
	} else {
		x.setVal(in, res)
	}
}

// range over maps/strings: the iteration order is arbitrary; modelled as unknowns.
func (x *FnExec) rangeInit(in *ssa.Range, st *State) {
	x.vals[in] = IntV(x.ctx.Fresh("rangeit", SInt))
}

func (x *FnExec) rangeNext(in *ssa.Next, st *State) {
	x.ctx.Note("range over map/string: each step yields an arbitrary (key, value) — every order is covered, membership is not tracked")
	tup := in.Type().(*types.Tuple)
	ok := BoolV(x.ctx.Fresh("rangeok", SBool))
	k := x.freshVal("rk", tup.At(1).Type(), true)
	v := x.freshVal("rv", tup.At(2).Type(), true)
	x.vals[in] = Comp(ok, k, v)
}

// ---------- exits ----------

func (x *FnExec) finish(args []Val) {
	con := x.con
	fn := x.fn
	x.handleDeferredRecovery()
	// one query per function: some contracted call is reachable but its continuation is not
	if len(x.callReach) > 0 {
		for _, cr := range x.callReach {
			// (before is satisfiable) and (after is unsatisfiable) cannot be phrased as one sat query;
			// check "after" and, only if it is unsat, whether "before" was reachable at all
			x.obligeSat(cr.name, "vacuity-call", "the callee's postcondition does not contradict the state at the call", cr.after)
			x.obls[len(x.obls)-1].AltQuery = x.queryPrefix() + "(assert " + cr.before + ")\n"
		}
	}
	// postconditions at every return
	// vacuity guard: if no return can be reached every postcondition holds for the wrong reason
	// (contradictory assumed contracts, wrong havoc). Individual returns may be legitimately
	// dead (defensive error paths), so the guard is on their disjunction.
	if len(x.rets) > 0 {
		var rr []Term
		for _, r := range x.rets {
			rr = append(rr, r.st.reach)
		}
		x.obligeSat("reach.some_return", "vacuity", "some return is reachable", Or(rr...))
	}
	for _, r := range x.rets {
		env := x.envFor(con, fn, args, r.results, r.st.heaps, x.entry.heaps, x.entry.alloc)
		x.addFreeVarNames(env)
		if len(con.Witness) > 0 && r.blk != nil {
			rr := r
			env.witness = con.Witness
			env.witnessLocal = func(name string) (TVal, bool) { return x.resolveLocal(name, rr.blk, rr.st) }
		}
		for k, ens := range con.Ensures {
			name := fmt.Sprintf("post%d", k+1)
			if len(x.rets) > 1 {
				name += "." + r.what
			}
			x.oblige(name, "post", ens.Src, r.st.reach, env.EvalBool(ens.E))
			x.obls[len(x.obls)-1].Clause = ens.E
		}
		if con.ModAll {
			if invs := x.globalInvs(env); len(invs) > 0 {
				x.oblige("globals_preserved."+r.what, "frame", "invariants of the package variables used hold again at exit (contract has modifies *)", r.st.reach, And(invs...))
			}
		}
		if !con.ModAll {
			x.frameObligation("frame."+r.what, r.st.reach, x.entry.heaps, r.st.heaps, con.Modifies, x.envFor(con, fn, args, nil, x.entry.heaps, x.entry.heaps, x.entry.alloc), x.entry.alloc, true)
		} else if len(con.Modifies) > 0 {
			// modifies * together with ghost(...) entries: memory is unconstrained, the abstract
			// state changes only where listed
			gh := map[string]Term{}
			for k, v := range r.st.heaps {
				if strings.HasPrefix(k, "ghost:") && k != "ghost:panicking" && k != "ghost:panicTyp" {
					gh[k] = v
				}
			}
			x.frameObligation("ghostframe."+r.what, r.st.reach, x.entry.heaps, gh, con.Modifies, x.envFor(con, fn, args, nil, x.entry.heaps, x.entry.heaps, x.entry.alloc), x.entry.alloc, true)
		}
	}
	// panics
	envPre := x.envFor(con, fn, args, nil, x.entry.heaps, x.entry.heaps, x.entry.alloc)
	x.addFreeVarNames(envPre)
	if !con.MayPanic {
		var p Term = "false"
		src := "no panic"
		if con.PanicsIff != nil {
			p = envPre.EvalBool(con.PanicsIff.E)
			src = "panics_iff " + con.PanicsIff.Src
		}
		for i, ps := range x.panics {
			x.oblige(fmt.Sprintf("panic%d(%s).only_if", i+1, sanitize(ps.what)), "panic", src+" [panic source: "+ps.what+"]", ps.st.reach, p)
		}
		if con.PanicsIff != nil {
			for _, r := range x.rets {
				x.oblige("returns.only_if_not("+r.what+")", "panic", "normal return implies !( "+con.PanicsIff.Src+" )", r.st.reach, Not(p))
			}
		}
	}
	if con.MayPanic && con.NoIndexPanic && !con.NoRuntimePanic {
		for i, ps := range x.panics {
			if strings.Contains(ps.what, "index out of range") || strings.Contains(ps.what, "slice bounds out of range") || strings.Contains(ps.what, "division by zero") {
				x.oblige(fmt.Sprintf("panic%d(%s).no_index_error", i+1, sanitize(ps.what)), "panic", "no out-of-range index, slice bound or division by zero [panic source: "+ps.what+"]", ps.st.reach, "false")
			}
		}
	}
	if con.MayPanic && con.NoRuntimePanic {
		for i, ps := range x.panics {
			if isRuntimePanic(ps.what) {
				x.oblige(fmt.Sprintf("panic%d(%s).no_runtime_error", i+1, sanitize(ps.what)), "panic", "no Go run-time error (explicit panics and callee panics are allowed) [panic source: "+ps.what+"]", ps.st.reach, "false")
			}
		}
	}
	for k, pi := range con.PanicsIf {
		p := envPre.EvalBool(pi.E)
		for _, r := range x.rets {
			x.oblige(fmt.Sprintf("panics_if%d.no_return(%s)", k+1, r.what), "panic", "normal return implies !( "+pi.Src+" )", r.st.reach, Not(p))
		}
	}
	if len(x.rets) == 0 && len(x.panics) == 0 {
		x.errorf("%s: no exit reached", x.fnName())
	}
	for k, ca := range con.CallAsserts {
		// every call-site assertion speaks about at least one call: always emitted (so that the
		// claim is in the baseline), false when an edit removed the call the assertion is about
		goal := Term("true")
		src := ca.Src + " [the function calls " + ca.Callee + "]"
		if !x.assertHit[k] {
			goal = "false"
		}
		x.oblige(fmt.Sprintf("assert%d.has_call_site(%s)", k+1, sanitize(ca.Callee)), "assert", src, "true", goal)
	}
}

func isRuntimePanic(what string) bool {
	for _, k := range []string{"index out of range", "slice bounds out of range", "integer division by zero", "nil dereference", "type assertion failed", "nil map", "makeslice", "method call on nil interface", "nil receiver"} {
		if strings.Contains(what, k) {
			return true
		}
	}
	return false
}

// frameObligation: outside the modifies set, pre-existing memory is unchanged.
func (x *FnExec) frameObligation(name string, reach Term, before, after map[string]Term, mods []CExpr, env *Env, allocBound Term, entryFrame bool) {
	// addresses that may change, per heap key
	type loc struct {
		key  string
		addr Term
		n    int // number of consecutive addresses
		all  bool
	}
	var locs []loc
	for _, m := range mods {
		switch m := m.(type) {
		case *CIndex:
			if id, ok := m.X.(*CIdent); ok && id.Name == "Big" {
				locs = append(locs, loc{key: "Big", addr: env.scalar(env.Eval(m.I), "modifies"), n: 1})
				continue
			}
		case *CSel:
			base := env.Eval(m.X)
			if base.T != nil {
				if p, ok := base.T.Underlying().(*types.Pointer); ok {
					if stt, ok := p.Elem().Underlying().(*types.Struct); ok {
						for i := 0; i < stt.NumFields(); i++ {
							if stt.Field(i).Name() == m.Name {
								off := x.mem.FieldOffset(p.Elem(), i)
								for j, l := range x.mem.FieldLeaves(p.Elem(), i) {
									locs = append(locs, loc{key: l.Key, addr: Add(base.V.T, Lit(int64(off+j))), n: 1})
								}
							}
						}
						continue
					}
				}
			}
		case *CCall:
			if m.Fn == "ghost" {
				if id, ok := m.Args[0].(*CIdent); ok {
					if id.Name == "none" {
						continue
					}
					idx := "0"
					if len(m.Args) > 1 {
						idx = env.scalar(env.Eval(m.Args[1]), "ghost index")
					}
					locs = append(locs, loc{key: "ghost:" + id.Name, addr: idx, n: 1})
					continue
				}
			}
			if m.Fn == "heap" {
				if s, ok := m.Args[0].(*CStr); ok {
					locs = append(locs, loc{key: s.V, all: true})
					continue
				}
			}
			if m.Fn == "deref" {
				base := env.Eval(m.Args[0])
				if p, ok := base.T.Underlying().(*types.Pointer); ok {
					for j, l := range x.mem.Leaves(p.Elem()) {
						locs = append(locs, loc{key: l.Key, addr: Add(base.V.T, Lit(int64(j))), n: 1})
					}
					continue
				}
			}
			if m.Fn == "elems" {
				base := env.Eval(m.Args[0])
				if sl, ok := base.T.Underlying().(*types.Slice); ok {
					sz := x.mem.Size(sl.Elem())
					for _, l := range x.mem.Leaves(sl.Elem()) {
						locs = append(locs, loc{key: l.Key, addr: base.V.F[0].T, n: -1, all: false})
						_ = sz
						locs[len(locs)-1].addr = base.V.F[0].T + "|" + Add(base.V.F[0].T, Mul(base.V.F[2].T, Lit(int64(sz))))
					}
					continue
				}
			}
		}
		x.errorf("unsupported modifies location %s", cexprString(m))
	}
	keys := map[string]bool{}
	for k := range after {
		keys[k] = true
	}
	var goals []Term
	for _, k := range sortedKeys(keys) {
		a := after[k]
		b, ok := before[k]
		if !ok {
			b = x.initHeap(k, x.heapBool[k])
		}
		if a == b {
			continue
		}
		whole := false
		var ex []Term
		sk := x.ctx.Fresh("fr_"+k, SInt)
		for _, l := range locs {
			if l.all && (l.key == k || strings.Contains(k, l.key)) {
				whole = true
			}
			if l.key != k {
				continue
			}
			if l.n == -1 {
				parts := strings.SplitN(l.addr, "|", 2)
				ex = append(ex, And(Ge(sk, parts[0]), Lt(sk, parts[1])))
			} else if !l.all {
				ex = append(ex, Eq(sk, l.addr))
			}
		}
		if whole {
			continue
		}
		// skolemised: for the arbitrary pre-existing address sk outside the modifies set
		cond := And(Ge(sk, "0"), Lt(sk, allocBound), Not(Or(ex...)))
		if strings.HasPrefix(k, "ghost:") {
			cond = Not(Or(ex...)) // abstract state is not memory: every index counts
		}
		goals = append(goals, Implies(cond, Eq(Sel(a, sk), Sel(b, sk))))
	}
	// emitted even when nothing was written (goal true): a frame obligation must exist in the
	// baseline for a later change that breaks it to be reported against
	src := "modifies nothing"
	if len(mods) > 0 {
		var ss []string
		for _, m := range mods {
			ss = append(ss, cexprString(m))
		}
		src = "modifies " + strings.Join(ss, ", ")
	}
	x.oblige(name, "frame", src+" (every other pre-existing location unchanged)", reach, And(goals...))
}

// globalLiteral: a package-level integer variable whose (assumed, immutable) invariant is
// NAME == <literal> reads as that literal while the function has not written its heap.
func (x *FnExec) globalLiteral(g *ssa.Global, st *State) (Term, bool) {
	if g.Pkg == nil {
		return "", false
	}
	el := g.Type().(*types.Pointer).Elem()
	if _, ok := intRangeOK(el); !ok {
		return "", false
	}
	leaves := x.mem.Leaves(el)
	if len(leaves) != 1 {
		return "", false
	}
	if _, written := st.heaps[leaves[0].Key]; written {
		return "", false
	}
	for _, spec := range x.eng.cs.Globals[g.Pkg.Pkg.Path()] {
		if spec.Name != g.Name() || !spec.Immutable {
			continue
		}
		b, ok := spec.Inv.E.(*CBinary)
		if !ok || b.Op != "==" {
			continue
		}
		id, ok := b.X.(*CIdent)
		if !ok || id.Name != g.Name() {
			continue
		}
		env := &Env{x: x, vars: map[string]TVal{}, heaps: map[string]Term{}, old: map[string]Term{}, alloc0: "0", errs: &x.errs}
		v := env.Eval(b.Y)
		if !v.V.IsComp() && !v.V.B {
			if _, isNum := isNumeral(v.V.T); isNum {
				return v.V.T, true
			}
		}
	}
	return "", false
}

// handleDeferredRecovery: a panic raised while deferred calls are registered first runs them
// (LIFO) in "panicking" mode: ghost(panicking) == 1 and ghost(panicTyp) holds the dynamic
// type of the value; recover() reads and clears that state. If the state is cleared the
// function returns normally through its recover block, otherwise the panic propagates.
func (x *FnExec) handleDeferredRecovery() {
	if len(x.deferStack) == 0 || x.fn.Recover == nil {
		return
	}
	pending := x.panics
	x.panics = nil
	for _, ps := range pending {
		if ps.final || ps.nDefers == 0 {
			x.panics = append(x.panics, ps)
			continue
		}
		st := ps.st.clone()
		typ := ps.ptyp
		if typ == "" {
			typ = x.ctx.Fresh("panictyp", SInt)
			x.ctx.Assert(Gt(typ, "0"))
		}
		x.setGhost(st, "panicking", "1")
		x.setGhost(st, "panicTyp", typ)
		x.inDefers = true
		for i := ps.nDefers - 1; i >= 0; i-- {
			d := x.deferStack[i]
			x.call(d.instr, d.instr.Common(), st)
		}
		x.inDefers = false
		still := Eq(Sel(x.getHeap(st, "ghost:panicking", false), "0"), "1")
		// not recovered: the original panic continues
		cont := st.clone()
		cont.reach = x.ctx.Define("R_panic", SBool, And(st.reach, still))
		x.panics = append(x.panics, exitRec{st: cont, what: ps.what + " (not recovered)", ptyp: typ, final: true})
		// recovered: control resumes in the recover block, which returns the named results
		rec := st.clone()
		rec.reach = x.ctx.Define("R_recovered", SBool, And(st.reach, Not(still)))
		for _, in := range x.fn.Recover.Instrs {
			if !x.execInstr(x.fn.Recover, in, rec) {
				break
			}
		}
	}
}

func (x *FnExec) setGhost(st *State, name string, v Term) {
	key := "ghost:" + name
	h := x.getHeap(st, key, false)
	st.heaps[key] = x.ctx.Define("H_"+key, SArrI, Sto(h, "0", v))
}

// capturedOnlyByDeferred: a variable whose address is used only by this function's own loads
// and stores and by closures that are only ever deferred here: no callee can reach it.
func capturedOnlyByDeferred(a *ssa.Alloc) bool {
	if a.Referrers() == nil {
		return false
	}
	var ok func(v ssa.Value, depth int) bool
	ok = func(v ssa.Value, depth int) bool {
		if depth > 4 || v.Referrers() == nil {
			return false
		}
		for _, r := range *v.Referrers() {
			switch r := r.(type) {
			case *ssa.DebugRef:
			case *ssa.UnOp:
			case *ssa.Store:
				if r.Val == v {
					return false
				}
			case *ssa.FieldAddr:
				if !ok(r, depth+1) {
					return false
				}
			case *ssa.MakeClosure:
				if r.Referrers() == nil {
					return false
				}
				for _, rr := range *r.Referrers() {
					if d, isDefer := rr.(*ssa.Defer); !isDefer || d.Call.Value != ssa.Value(r) {
						if _, isDbg := rr.(*ssa.DebugRef); !isDbg {
							return false
						}
					}
				}
			default:
				return false
			}
		}
		return true
	}
	return ok(a, 0)
}
