#!/bin/bash
# usage: one.sh <mutant-name>  — apply one selftest mutant through an overlay and show the replay files
set -e
name=$1
d=$(mktemp -d)
python3 - "$name" "$d" <<'PY'
import json,sys,glob
name,d=sys.argv[1],sys.argv[2]
for f in glob.glob('/verif/selftest/mutants/*.json'):
    for m in json.load(open(f)):
        if m['name']==name:
            src=open(m['file']).read()
            pass
            parts=src.split(m["old"]); n=m.get("nth",0) or 1; open(d+"/m.go","w").write(m["old"].join(parts[:n])+m["new"]+m["old"].join(parts[n:]))
            json.dump({m['file']:d+'/m.go'},open(d+'/ov.json','w'))
            open(d+'/prop','w').write(m['prop'])
PY
cd /verif
GOVC_OVERLAY=$d/ov.json GOVC_EVIDENCE_DIR=$d GOVC_REPLAY_DIR=$d/replay ./bin/govc check $(cat $d/prop) quick || true
for f in $d/replay/*.json; do echo "== $f"; python3 -c "
import json,sys
r=json.load(open('$f'))
for k in ['obligation','clause','model','note','confirmed_on_real_code']: print(k,':',r.get(k))
print(r.get('replay_output','')[:1500])
"; done
rm -rf $d
