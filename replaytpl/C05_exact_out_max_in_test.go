package poolmanager_test

import (
	"fmt"

	sdk "github.com/cosmos/cosmos-sdk/types"

	"github.com/osmosis-labs/osmosis/osmomath"
	"github.com/osmosis-labs/osmosis/v31/x/poolmanager/types"
)

// C05: a single-route exact-out swap must not charge more than the caller's maximum input.
func (s *KeeperTestSuite) TestZZExactOutMaxIn() {
	s.SetupTest()
	poolId := s.PrepareBalancerPool()
	pmParams := s.App.PoolManagerKeeper.GetParams(s.Ctx)
	pmParams.TakerFeeParams.DefaultTakerFee = osmomath.MustNewDecFromStr("0.01")
	s.App.PoolManagerKeeper.SetParams(s.Ctx, pmParams)

	sender := s.TestAccs[0]
	s.FundAcc(sender, sdk.NewCoins(sdk.NewInt64Coin("foo", 10_000_000)))
	route := []types.SwapAmountOutRoute{{PoolId: poolId, TokenInDenom: "foo"}}
	tokenOut := sdk.NewInt64Coin("bar", 10_000)

	// what the pool itself needs (before the taker fee)
	swapModule, pool, err := s.App.PoolManagerKeeper.GetPoolModuleAndPool(s.Ctx, poolId)
	s.Require().NoError(err)
	needed, err := swapModule.CalcInAmtGivenOut(s.Ctx, pool, tokenOut, "foo", pool.GetSpreadFactor(s.Ctx))
	s.Require().NoError(err)
	maxIn := needed.Amount // the caller is willing to pay exactly this much, not more

	before := s.App.BankKeeper.GetBalance(s.Ctx, sender, "foo").Amount
	charged, err := s.App.PoolManagerKeeper.RouteExactAmountOut(s.Ctx, sender, route, maxIn, tokenOut)
	after := s.App.BankKeeper.GetBalance(s.Ctx, sender, "foo").Amount
	fmt.Println("ZZ err:", err, "maxIn:", maxIn, "reported charged:", charged, "actually debited:", before.Sub(after))
}
