package keeper_test

import (
	"fmt"
	"time"

	sdk "github.com/cosmos/cosmos-sdk/types"

	"github.com/osmosis-labs/osmosis/v31/x/lockup/types"
)

// C06/C11: the accumulation of a synthetic denomination must return to what it was after the
// synthetic lockup is created and deleted again, for every duration.
func (s *KeeperTestSuite) TestZZSynthAccumulation() {
	s.SetupTest()
	addr := s.TestAccs[0]
	coins := sdk.Coins{sdk.NewInt64Coin("stake", 100)}
	s.FundAcc(addr, coins)
	lock, err := s.App.LockupKeeper.CreateLock(s.Ctx, addr, coins, 15*24*time.Hour)
	s.Require().NoError(err)
	q := func(d time.Duration) string {
		return s.App.LockupKeeper.GetPeriodLocksAccumulation(s.Ctx, types.QueryCondition{LockQueryType: types.ByDuration, Denom: "synthstake", Duration: d}).String()
	}
	fmt.Println("ZZ before: >=14d", q(14*24*time.Hour), " >=15d", q(15*24*time.Hour), " >=14d12h", q(14*24*time.Hour+12*time.Hour))
	err = s.App.LockupKeeper.CreateSyntheticLockup(s.Ctx, lock.ID, "synthstake", 14*24*time.Hour, false)
	s.Require().NoError(err)
	fmt.Println("ZZ created: >=14d", q(14*24*time.Hour), " >=15d", q(15*24*time.Hour), " >=14d12h", q(14*24*time.Hour+12*time.Hour))
	err = s.App.LockupKeeper.DeleteSyntheticLockup(s.Ctx, lock.ID, "synthstake")
	s.Require().NoError(err)
	fmt.Println("ZZ deleted: >=14d", q(14*24*time.Hour), " >=15d", q(15*24*time.Hour), " >=14d12h", q(14*24*time.Hour+12*time.Hour))
}
