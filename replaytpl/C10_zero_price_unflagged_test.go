package twap_test

import (
	"fmt"
	"time"

	sdk "github.com/cosmos/cosmos-sdk/types"

	"github.com/osmosis-labs/osmosis/osmomath"
	"github.com/osmosis-labs/osmosis/v31/x/twap"
	"github.com/osmosis-labs/osmosis/v31/x/twap/types"
)

// pool manager whose spot price for the pair is programmable with full BigDec precision
type zzPM struct {
	types.PoolManagerInterface
	d0, d1 string
	p01, p10 osmomath.BigDec
}

func (p *zzPM) RouteCalculateSpotPrice(ctx sdk.Context, poolId uint64, quote, base string) (osmomath.BigDec, error) {
	if quote == p.d0 && base == p.d1 {
		return p.p01, nil
	}
	return p.p10, nil
}

func (s *TestSuite) TestZZC10ZeroPriceIntervalNotFlagged() {
	poolId := s.PrepareBalancerPoolWithCoins(defaultTwoAssetCoins...)
	d0, d1 := defaultTwoAssetCoins[0].Denom, defaultTwoAssetCoins[1].Denom
	pm := &zzPM{PoolManagerInterface: s.twapkeeper.GetAmmInterface(), d0: d0, d1: d1}
	s.twapkeeper.SetAmmInterface(pm)

	step := func(dt time.Duration) {
		s.Ctx = s.Ctx.WithBlockTime(s.Ctx.BlockTime().Add(dt)).WithBlockHeight(s.Ctx.BlockHeight() + 1)
	}
	// block t0: price 4
	pm.p01, pm.p10 = osmomath.NewBigDec(4), osmomath.NewBigDecWithPrec(25, 2)
	step(10 * time.Second)
	t0 := s.Ctx.BlockTime()
	s.twapkeeper.TrackChangedPool(s.Ctx, poolId)
	s.twapkeeper.EndBlock(s.Ctx)
	// block t1: the pool's price of denom0 is 10^-19 (concentrated pools go down to 10^-30): no error,
	// but the recorded 18-decimal price is zero
	pm.p01, pm.p10 = osmomath.NewBigDecWithPrec(1, 19), osmomath.NewBigDec(10).PowerInteger(19)
	step(10 * time.Second)
	t1 := s.Ctx.BlockTime()
	s.twapkeeper.TrackChangedPool(s.Ctx, poolId)
	s.twapkeeper.EndBlock(s.Ctx)
	r1, err := s.twapkeeper.GetMostRecentRecordStoreRepresentation(s.Ctx, poolId, d0, d1)
	s.Require().NoError(err)
	fmt.Println("ZZ record t1: P0LastSpotPrice", r1.P0LastSpotPrice, "LastErrorTime", r1.LastErrorTime, "geomAcc", r1.GeometricTwapAccumulator)

	// block t2: price back to 2
	pm.p01, pm.p10 = osmomath.NewBigDec(2), osmomath.NewBigDecWithPrec(5, 1)
	step(10 * time.Second)
	t2 := s.Ctx.BlockTime()
	s.twapkeeper.TrackChangedPool(s.Ctx, poolId)
	s.twapkeeper.EndBlock(s.Ctx)
	r2, err := s.twapkeeper.GetMostRecentRecordStoreRepresentation(s.Ctx, poolId, d0, d1)
	s.Require().NoError(err)
	fmt.Println("ZZ record t2: P0LastSpotPrice", r2.P0LastSpotPrice, "LastErrorTime", r2.LastErrorTime, "geomAcc", r2.GeometricTwapAccumulator, "t2", t2)
	// what interpolation to the same instant gives (query path): flagged
	ip := twap.RecordWithUpdatedAccumulators(r1, t2)
	fmt.Println("ZZ record t1 interpolated to t2 (query path): LastErrorTime", ip.LastErrorTime)

	step(10 * time.Second)
	g, gerr := s.twapkeeper.GetGeometricTwap(s.Ctx, poolId, d1, d0, t1, t2)
	fmt.Println("ZZ geometric twap over [t1,t2] (price in force: 10^-19, recorded 0):", g, "err:", gerr)
	gm, gmerr := s.twapkeeper.GetGeometricTwap(s.Ctx, poolId, d1, d0, t1, t1.Add(5*time.Second))
	fmt.Println("ZZ geometric twap over [t1,t1+5s]:", gm, "err:", gmerr)
	gl, glerr := s.twapkeeper.GetGeometricTwap(s.Ctx, poolId, d1, d0, t0, t2)
	fmt.Println("ZZ geometric twap over [t0,t2] (price 4 for 10s, then 10^-19 for 10s; true geometric mean about 6.3*10^-10):", gl, "err:", glerr)
	if gerr == nil {
		fmt.Println("ZZ VIOLATION-CONFIRMED: interval whose price has no logarithm is not flagged after the end-block update")
	}
}
