package keeper_test

import (
	"fmt"
	"time"

	sdk "github.com/cosmos/cosmos-sdk/types"

	"github.com/osmosis-labs/osmosis/osmomath"

	incentivestypes "github.com/osmosis-labs/osmosis/v31/x/incentives/types"
	lockuptypes "github.com/osmosis-labs/osmosis/v31/x/lockup/types"
)

// C09: each lock's reward goes to that lock's reward receiver.
func (s *KeeperTestSuite) TestZZTwoLocksTwoReceivers() {
	s.SetupTest()
	s.Require().NoError(s.App.TxFeesKeeper.SetBaseDenom(s.Ctx, "uosmo"))
	s.App.IncentivesKeeper.SetParam(s.Ctx, incentivestypes.KeyMinValueForDistr, sdk.NewCoin("uosmo", osmomath.NewInt(1)))
	owner, r1, r2 := s.TestAccs[0], s.TestAccs[1], s.TestAccs[2]
	coins := sdk.Coins{sdk.NewInt64Coin("lptoken", 10)}
	s.FundAcc(owner, coins.Add(coins...))
	l1, err := s.App.LockupKeeper.CreateLock(s.Ctx, owner, coins, time.Second)
	s.Require().NoError(err)
	l2, err := s.App.LockupKeeper.CreateLock(s.Ctx, owner, coins, 2*time.Second)
	s.Require().NoError(err)
	s.Require().NoError(s.App.LockupKeeper.SetLockRewardReceiverAddress(s.Ctx, l1.ID, owner, r1.String()))
	s.Require().NoError(s.App.LockupKeeper.SetLockRewardReceiverAddress(s.Ctx, l2.ID, owner, r2.String()))
	rew := sdk.Coins{sdk.NewInt64Coin("uosmo", 1000000000)}
	s.FundAcc(owner, rew)
	gid, err := s.App.IncentivesKeeper.CreateGauge(s.Ctx, true, owner, rew, lockuptypes.QueryCondition{LockQueryType: lockuptypes.ByDuration, Denom: "lptoken", Duration: time.Second}, s.Ctx.BlockTime(), 1, 0)
	s.Require().NoError(err)
	g, err := s.App.IncentivesKeeper.GetGaugeByID(s.Ctx, gid)
	s.Require().NoError(err)
	s.Require().NoError(s.App.IncentivesKeeper.MoveUpcomingGaugeToActiveGauge(s.Ctx, *g))
	dist, err := s.App.IncentivesKeeper.Distribute(s.Ctx, []incentivestypes.Gauge{*g})
	s.Require().NoError(err)
	fmt.Println("ZZ distributed:", dist, "receiver1:", s.App.BankKeeper.GetBalance(s.Ctx, r1, "uosmo"), " receiver2:", s.App.BankKeeper.GetBalance(s.Ctx, r2, "uosmo"), " owner:", s.App.BankKeeper.GetBalance(s.Ctx, owner, "uosmo"))
}
