package keeper_test

import (
	"fmt"

	sdk "github.com/cosmos/cosmos-sdk/types"

	"github.com/osmosis-labs/osmosis/osmomath"
	"github.com/osmosis-labs/osmosis/v31/x/mint/types"
)

func (s *KeeperTestSuite) TestZZDevDust() {
	s.Setup()
	k := s.App.MintKeeper
	params := k.GetParams(s.Ctx)
	params.WeightedDeveloperRewardsReceivers = []types.WeightedAddress{
		{Address: testAddressOne.String(), Weight: osmomath.NewDecWithPrec(5, 1)},
		{Address: testAddressTwo.String(), Weight: osmomath.NewDecWithPrec(5, 1)},
	}
	k.SetParams(s.Ctx, params)
	denom := params.MintDenom
	// developer proportion of the default params times 1000 must be odd: pick minted so that the dev share is odd
	var minted sdk.Coin
	for a := int64(1000); ; a++ {
		c := sdk.NewCoin(denom, osmomath.NewInt(a))
		share := c.Amount.ToLegacyDec().Mul(params.DistributionProportions.DeveloperRewards).TruncateInt()
		if share.IsPositive() && share.ModRaw(2).Equal(osmomath.OneInt()) {
			minted = c
			fmt.Println("ZZ minted", c, "developer share", share)
			break
		}
	}
	before := s.App.BankKeeper.GetSupplyWithOffset(s.Ctx, denom).Amount
	s.Require().NoError(s.App.BankKeeper.MintCoins(s.Ctx, types.ModuleName, sdk.NewCoins(minted)))
	s.Require().NoError(k.DistributeMintedCoin(s.Ctx, minted))
	after := s.App.BankKeeper.GetSupplyWithOffset(s.Ctx, denom).Amount
	fmt.Println("ZZ reported supply grew by", after.Sub(before), "minted", minted.Amount, "mint module balance left", s.App.BankKeeper.GetBalance(s.Ctx, s.App.AccountKeeper.GetModuleAddress(types.ModuleName), denom))
}
