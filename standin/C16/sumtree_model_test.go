package sumtree_test

// Bounded stand-in for C16's history quantifier (preservation of the tree's well-formedness by
// push/pull and correctness of the recursive read path, which the contracts do NOT decide):
// model-based comparison of the store-backed sum-tree with a plain sorted map over bounded
// operation sequences, for several fan-out settings. After every operation every observable is
// compared: Get of every key of the alphabet, SplitAcc at every key of the alphabet, PrefixSum,
// SubsetAccumulation for every ordered pair incl. nil bounds, TotalAccumulatedValue, and the
// ordered iteration.
//
// Bound: (A) update-only histories (Set/Increase/Decrease) for fan-outs 2,3,4,5,8,32;
// (B) histories with Remove (never of the empty key, the sentinel NewTree creates) for fan-outs 5,8,10,32
// over an 18-key alphabet, where the trees stay at most three levels deep; (C) scripted
// scenarios (sibling merge at fan-out 10; queries below the smallest key). Removal-heavy
// histories at fan-outs 2..4 are NOT explored at random because they run into the recorded
// finding "stale-separator-after-removal"; its shortest witness is replayed here as a canary.

import (
	"bytes"
	"fmt"
	"math/rand"
	"os"
	"sort"
	"testing"

	"cosmossdk.io/log"
	iavlstore "cosmossdk.io/store/iavl"
	dbm "github.com/cosmos/cosmos-db"
	"github.com/cosmos/iavl"

	"github.com/osmosis-labs/osmosis/osmomath"
	"github.com/osmosis-labs/osmosis/osmoutils/sumtree"
	"github.com/osmosis-labs/osmosis/osmoutils/wrapper"
)

func zzNewTree(m uint8) sumtree.Tree {
	db := wrapper.NewIAVLDB(dbm.NewMemDB())
	tree := iavl.NewMutableTree(db, 100, false, log.NewNopLogger())
	if _, _, err := tree.SaveVersion(); err != nil {
		panic(err)
	}
	return sumtree.NewTree(iavlstore.UnsafeNewStore(tree), m)
}

var zzAlphabet = [][]byte{
	{}, {0}, {0, 0}, []byte("a"), []byte("a\x00"), []byte("aa"), []byte("ab"), []byte("abc"), []byte("b"),
	[]byte("ba"), {0xff}, {0xff, 0xff}, []byte("c"), []byte("ca"), []byte("d"), []byte("e"), []byte("f"), []byte("g"),
}

type zzModel map[string]int64

func (m zzModel) sumRange(lo, hi []byte, loIncl, hiIncl bool, hasLo, hasHi bool) int64 {
	var s int64
	for k, v := range m {
		kb := []byte(k)
		if hasLo {
			c := bytes.Compare(kb, lo)
			if c < 0 || (c == 0 && !loIncl) {
				continue
			}
		}
		if hasHi {
			c := bytes.Compare(kb, hi)
			if c > 0 || (c == 0 && !hiIncl) {
				continue
			}
		}
		s += v
	}
	return s
}

func zzCompare(tr sumtree.Tree, model zzModel, keys [][]byte, what string, fails map[string]string) int {
	n := 0
	fail := func(id, detail string) {
		if _, ok := fails[id]; !ok {
			fails[id] = what + ": " + detail
		}
	}
	var total int64
	for _, v := range model {
		total += v
	}
	for _, k := range keys {
		n++
		want := model[string(k)]
		if got := tr.Get(k); !got.Equal(osmomath.NewInt(want)) {
			fail("get", fmt.Sprintf("Get(%q) = %s, map has %d", k, got, want))
		}
		l, e, r := tr.SplitAcc(k)
		wl := model.sumRange(nil, k, false, false, false, true)
		wr := model.sumRange(k, nil, false, false, true, false)
		if !l.Equal(osmomath.NewInt(wl)) || !e.Equal(osmomath.NewInt(want)) || !r.Equal(osmomath.NewInt(wr)) {
			fail("split", fmt.Sprintf("SplitAcc(%q) = (%s,%s,%s), map gives (%d,%d,%d)", k, l, e, r, wl, want, wr))
		}
		if got := tr.PrefixSum(k); !got.Equal(osmomath.NewInt(wl + want)) {
			fail("prefix-sum", fmt.Sprintf("PrefixSum(%q) = %s, map gives %d", k, got, wl+want))
		}
		if got := tr.SubsetAccumulation(k, nil); !got.Equal(osmomath.NewInt(want + wr)) {
			fail("subset-from", fmt.Sprintf("SubsetAccumulation(%q,nil) = %s, map gives %d", k, got, want+wr))
		}
		if got := tr.SubsetAccumulation(nil, k); !got.Equal(osmomath.NewInt(wl + want)) {
			fail("subset-to", fmt.Sprintf("SubsetAccumulation(nil,%q) = %s, map gives %d", k, got, wl+want))
		}
		for _, k2 := range keys {
			if bytes.Compare(k, k2) > 0 {
				continue
			}
			n++
			w := model.sumRange(k, k2, true, true, true, true)
			if got := tr.SubsetAccumulation(k, k2); !got.Equal(osmomath.NewInt(w)) {
				fail("subset", fmt.Sprintf("SubsetAccumulation(%q,%q) = %s, map gives %d", k, k2, got, w))
			}
		}
	}
	n++
	if got := tr.TotalAccumulatedValue(); !got.Equal(osmomath.NewInt(total)) {
		fail("total", fmt.Sprintf("TotalAccumulatedValue() = %s, map gives %d", got, total))
	}
	if got := tr.SubsetAccumulation(nil, nil); !got.Equal(osmomath.NewInt(total)) {
		fail("subset-all", fmt.Sprintf("SubsetAccumulation(nil,nil) = %s, map gives %d", got, total))
	}
	// ordered iteration: exactly the keys of the map, ascending
	var wantKeys []string
	for k := range model {
		wantKeys = append(wantKeys, k)
	}
	sort.Strings(wantKeys)
	it := tr.Iterator(nil, nil)
	var gotKeys []string
	for ; it.Valid(); it.Next() {
		gotKeys = append(gotKeys, string(it.Key()[7:]))
	}
	it.Close()
	n++
	if fmt.Sprint(gotKeys) != fmt.Sprint(wantKeys) {
		fail("iteration", fmt.Sprintf("iteration gives %q, map has %q", gotKeys, wantKeys))
	}
	return n
}

func zzRandom(m uint8, s int, opsPer int, withRemove bool, fails map[string]string) int {
	evals := 0
	r := rand.New(rand.NewSource(int64(1000*int(m) + s)))
	nk := 3 + r.Intn(len(zzAlphabet)-3)
	keys := zzAlphabet[:nk]
	tag := "update-only"
	if withRemove {
		tag = "with-remove"
	}
	defer func() {
		if rec := recover(); rec != nil {
			if _, ok := fails["panic"]; !ok {
				fails["panic"] = fmt.Sprintf("%s m=%d seq=%d: %v", tag, m, s, rec)
			}
		}
	}()
	tr := zzNewTree(m)
	model := zzModel{"": 0} // NewTree stores the empty key with 0
	for i := 0; i < opsPer; i++ {
		k := keys[r.Intn(nk)]
		v := int64(r.Intn(50))
		var what string
		c := r.Intn(5)
		if c == 4 && (!withRemove || len(k) == 0) {
			c = 0
		}
		switch c {
		case 0, 1:
			tr.Set(k, osmomath.NewInt(v))
			model[string(k)] = v
			what = fmt.Sprintf("%s m=%d seq=%d op=%d Set(%q,%d)", tag, m, s, i, k, v)
		case 2:
			tr.Increase(k, osmomath.NewInt(v))
			model[string(k)] += v
			what = fmt.Sprintf("%s m=%d seq=%d op=%d Increase(%q,%d)", tag, m, s, i, k, v)
		case 3:
			tr.Decrease(k, osmomath.NewInt(v))
			model[string(k)] -= v
			what = fmt.Sprintf("%s m=%d seq=%d op=%d Decrease(%q,%d)", tag, m, s, i, k, v)
		case 4:
			tr.Remove(k)
			delete(model, string(k))
			what = fmt.Sprintf("%s m=%d seq=%d op=%d Remove(%q)", tag, m, s, i, k)
		}
		evals += zzCompare(tr, model, keys, what, fails)
	}
	return evals
}

// scripted: sibling merge at the production fan-out (30 ascending keys, thin the neighbours of
// the second node, empty it) and queries for keys that are not in the tree
func zzScripted(fails map[string]string) int {
	evals := 0
	defer func() {
		if rec := recover(); rec != nil {
			fails["scripted-panic"] = fmt.Sprint(rec)
		}
	}()
	tr := zzNewTree(10)
	model := zzModel{"": 0}
	key := func(i int) []byte { return []byte(fmt.Sprintf("k%02d", i)) }
	var keys [][]byte
	for i := 0; i < 30; i++ {
		keys = append(keys, key(i))
	}
	keys = append(keys, []byte{}, []byte("a"), []byte("k"), []byte("k055"), []byte("z"))
	for i := 0; i < 30; i++ {
		tr.Set(key(i), osmomath.NewInt(int64(i+1)))
		model[string(key(i))] = int64(i + 1)
	}
	evals += zzCompare(tr, model, keys, "scripted merge: after 30 ascending inserts (m=10)", fails)
	for _, i := range []int{3, 4, 14, 15, 16, 5, 6, 7, 8, 9, 10} {
		tr.Remove(key(i))
		delete(model, string(key(i)))
		evals += zzCompare(tr, model, keys, fmt.Sprintf("scripted merge: after Remove(k%02d) (m=10)", i), fails)
	}
	return evals
}

// boundary capacities: the node capacity is a uint8, so 254 and 255 are where arithmetic on it can
// wrap; 700 ascending inserts overflow a node several times at those fan-outs (and at 127/128,
// the signed boundary); compared on a fixed probe set after the inserts around each overflow
func zzBoundaryFanouts(fails map[string]string) int {
	evals := 0
	for _, m := range []uint8{127, 128, 253, 254, 255} {
		func() {
			defer func() {
				if rec := recover(); rec != nil {
					fails[fmt.Sprintf("boundary-fanout-%d-panic", m)] = fmt.Sprint(rec)
				}
			}()
			tr := zzNewTree(m)
			model := zzModel{"": 0}
			key := func(i int) []byte { return []byte(fmt.Sprintf("k%04d", i)) }
			probes := [][]byte{{}, []byte("a"), key(0), key(1), key(126), key(127), key(128), key(129), key(253), key(254), key(255), key(256), key(257), key(400), key(511), key(512), key(699), []byte("k0255x"), []byte("z")}
			for i := 0; i < 700; i++ {
				tr.Set(key(i), osmomath.NewInt(int64(i+1)))
				model[string(key(i))] = int64(i + 1)
				if i%64 == 0 || (i >= int(m)-3 && i <= int(m)+3) || (i >= 2*int(m)-3 && i <= 2*int(m)+3) || i == 699 {
					evals += zzCompare(tr, model, probes, fmt.Sprintf("boundary fan-out %d: after %d ascending inserts", m, i+1), fails)
				}
			}
		}()
	}
	return evals
}

// canaries for recorded findings: must keep failing until the tree's removal path is repaired
func zzKnown(fails map[string]string) {
	probe := func(id string, m uint8, script func(tr sumtree.Tree, model zzModel), keys [][]byte) {
		defer func() {
			if rec := recover(); rec != nil {
				fails[id] = fmt.Sprintf("m=%d: panic %v", m, rec)
			}
		}()
		tr := zzNewTree(m)
		model := zzModel{"": 0}
		script(tr, model)
		sub := map[string]string{}
		zzCompare(tr, model, keys, "", sub)
		for _, k := range []string{"split", "get", "prefix-sum", "total", "subset", "iteration"} {
			if d, ok := sub[k]; ok {
				fails[id] = fmt.Sprintf("m=%d%s", m, d)
				return
			}
		}
	}
	letters := [][]byte{{}, []byte("a"), []byte("b"), []byte("c"), []byte("d"), []byte("e"), []byte("f"), []byte("g"), []byte("h"), []byte("i")}
	// emptying the first child of a non-leftmost branch leaves its key as a stale separator; a
	// later insert into the gap is attached under the left neighbour's branch
	probe("stale-separator-after-removal", 3, func(tr sumtree.Tree, model zzModel) {
		set := func(k string, v int64) { tr.Set([]byte(k), osmomath.NewInt(v)); model[k] = v }
		rm := func(k string) { tr.Remove([]byte(k)); delete(model, k) }
		rm("i")
		set("d", 2)
		set("f", 3)
		set("e", 4)
		set("g", 5)
		set("h", 6)
		set("b", 7)
		rm("e")
		set("a", 9)
		rm("f")
		set("f", 11)
	}, letters)
}

func TestZZStandinSumtree(t *testing.T) {
	thorough := os.Getenv("VERIF_TIER") == "thorough"
	seqs, opsPer := 40, 40
	if thorough {
		seqs, opsPer = 1000, 80
	}
	fails := map[string]string{}
	evals := 0
	nseq := 0
	for _, m := range []uint8{2, 3, 4, 5, 8, 32} {
		for s := 0; s < seqs; s++ {
			nseq++
			evals += zzRandom(m, s, opsPer, false, fails)
		}
	}
	for _, m := range []uint8{5, 8, 10, 32} {
		for s := 0; s < seqs; s++ {
			nseq++
			evals += zzRandom(m, 100000+s, opsPer, true, fails)
		}
	}
	evals += zzScripted(fails)
	evals += zzBoundaryFanouts(fails)
	zzKnown(fails)
	ids := make([]string, 0, len(fails))
	for id := range fails {
		ids = append(ids, id)
	}
	sort.Strings(ids)
	for _, id := range ids {
		fmt.Printf("FAIL %s %s\n", id, fails[id])
	}
	fmt.Printf("STANDIN evaluations=%d distinct=%d failures=%d rule=%d pseudo-random operation sequences (fixed seeds) of %d operations each over sub-alphabets of %d byte-string keys (empty key, shared prefixes, 0x00/0xff bytes): update-only (Set/Increase/Decrease) for fan-outs 2,3,4,5,8,32 and with Remove (never of the empty key, the sentinel NewTree creates) for fan-outs 5,8,10,32, plus a scripted sibling merge at fan-out 10 and 700 ascending inserts at the capacity boundaries 127,128,253,254,255 (compared on 19 probe keys around each node overflow); after every operation Get, SplitAcc, PrefixSum, SubsetAccumulation (all ordered pairs and nil bounds), TotalAccumulatedValue and ordered iteration are compared with a sorted map; one recorded finding is replayed as a canary\n", evals, nseq, len(fails), nseq, opsPer, len(zzAlphabet))
}
