package osmomath

// Bounded stand-in for C12's "text, JSON and binary encodings round-trip every value":
// decimal-string manipulation is outside govc's subset, so the round-trip contracts are
// executed on the real code over an enumerated family of values (bound stated below).

import (
	"fmt"
	"math/big"
	"os"
	"testing"
)

func zzFamily(maxDigits int) []*big.Int {
	var out []*big.Int
	seen := map[string]bool{}
	add := func(v *big.Int) {
		for _, s := range []int{1, -1} {
			w := new(big.Int).Mul(v, big.NewInt(int64(s)))
			if !seen[w.String()] {
				seen[w.String()] = true
				out = append(out, w)
			}
		}
	}
	add(big.NewInt(0))
	ten := big.NewInt(10)
	for k := 0; k < maxDigits; k++ {
		p := new(big.Int).Exp(ten, big.NewInt(int64(k)), nil)
		add(p)
		add(new(big.Int).Add(p, big.NewInt(1)))
		add(new(big.Int).Sub(p, big.NewInt(1)))
		add(new(big.Int).Mul(p, big.NewInt(5)))
		add(new(big.Int).Mul(p, big.NewInt(123456789)))
	}
	// around the bit-length bounds
	for _, bits := range []uint{63, 64, 255, 256, 1023, 1024, 1025, 1143, 1144} {
		p := new(big.Int).Lsh(big.NewInt(1), bits)
		add(p)
		add(new(big.Int).Sub(p, big.NewInt(1)))
	}
	return out
}

func TestZZStandinRoundTrip(t *testing.T) {
	maxDigits := 345
	if os.Getenv("VERIF_TIER") == "thorough" {
		maxDigits = 345
	}
	vals := zzFamily(maxDigits)
	evals, fails := 0, 0
	seenID := map[string]int{}
	short := func(v *big.Int) string {
		s := v.String()
		if len(s) > 24 {
			s = s[:12] + "..." + s[len(s)-6:] + fmt.Sprintf("(%d digits)", len(s))
		}
		return fmt.Sprintf("%s [bitlen %d]", s, v.BitLen())
	}
	_ = short
	fail := func(id string, f string, a ...any) {
		fails++
		seenID[id]++
		if seenID[id] == 1 { // one witness per finding id
			fmt.Printf("FAIL %s %s\n", id, fmt.Sprintf(f, a...))
		}
	}
	for _, v := range vals {
		// a BigDec is representable iff it fits the arithmetic bound (assertMaxBitLen)
		if v.BitLen() <= maxDecBitLen {
			d := BigDec{i: new(big.Int).Set(v)}
			region := "within-parse-bound"
			if v.BitLen() > maxBitLen {
				region = "between-parse-and-arith-bound"
			}
			// text
			evals++
			back, err := NewBigDecFromStr(d.String())
			if err != nil || !back.Equal(d) {
				fail("bigdec-text-"+region, "raw=%s err=%v", short(v), err)
			}
			// binary (gogoproto custom type)
			evals++
			bz, err := d.Marshal()
			var u BigDec
			if err == nil {
				err = (&u).Unmarshal(bz)
			}
			if err != nil || u.i == nil || u.i.Cmp(v) != 0 {
				fail("bigdec-binary-"+region, "raw=%s err=%v", short(v), err)
			}
			// MarshalTo / Size agree with Marshal
			evals++
			buf := make([]byte, (&d).Size())
			n, err := (&d).MarshalTo(buf)
			if err != nil || n != len(bz) || string(buf[:n]) != string(bz) {
				fail("bigdec-marshalto-"+region, "raw=%s", short(v))
			}
			// JSON
			evals++
			js, err := d.MarshalJSON()
			var uj BigDec
			if err == nil {
				err = (&uj).UnmarshalJSON(js)
			}
			if err != nil || uj.i == nil || uj.i.Cmp(v) != 0 {
				fail("bigdec-json-"+region, "raw=%s err=%v", short(v), err)
			}
		}
		if v.BitLen() <= maxBitLen {
			i := BigInt{i: new(big.Int).Set(v)}
			evals++
			bz, err := i.Marshal()
			var u BigInt
			if err == nil {
				err = (&u).Unmarshal(bz)
			}
			if err != nil || u.i == nil || u.i.Cmp(v) != 0 {
				fail("bigint-binary", "raw=%s err=%v", short(v), err)
			}
			evals++
			js, err := i.MarshalJSON()
			var uj BigInt
			if err == nil {
				err = (&uj).UnmarshalJSON(js)
			}
			if err != nil || uj.i == nil || uj.i.Cmp(v) != 0 {
				fail("bigint-json", "raw=%s err=%v", short(v), err)
			}
			evals++
			back, ok := NewBigIntFromString(i.String())
			if !ok || !back.Equal(i) {
				fail("bigint-text", "raw=%s", short(v))
			}
		}
		// 18-decimal type (cosmossdk.io/math, aliased as Dec): |v| <= 2^256*10^18 - 1
		if v.BitLen() <= 256+59 {
			d := NewDecFromBigIntWithPrec(new(big.Int).Set(v), 18)
			evals++
			back, err := NewDecFromStr(d.String())
			if err != nil || !back.Equal(d) {
				fail("dec-text", "raw=%s err=%v", short(v), err)
			}
			evals++
			bz, err := d.Marshal()
			var u Dec
			if err == nil {
				err = (&u).Unmarshal(bz)
			}
			if err != nil || !u.Equal(d) {
				fail("dec-binary", "raw=%s err=%v", short(v), err)
			}
			evals++
			js, err := d.MarshalJSON()
			var uj Dec
			if err == nil {
				err = (&uj).UnmarshalJSON(js)
			}
			if err != nil || !uj.Equal(d) {
				fail("dec-json", "raw=%s err=%v", short(v), err)
			}
		}
	}
	fmt.Printf("STANDIN evaluations=%d distinct=%d failures=%d rule=encode/decode round trip (text, gogoproto binary, MarshalTo/Size, JSON) of BigDec, BigInt and Dec on raw integers {0, 10^k, 10^k+-1, 5*10^k, 123456789*10^k : k < %d} and 2^b, 2^b-1 for b in {63,64,255,256,1023,1024,1025,1143,1144}, both signs; distinct = distinct raw integers\n", evals, len(vals), fails, maxDigits)
}
