package math

// Bounded/exhaustive stand-in for C14's round-trip and monotonicity conjuncts:
//   CalculateSqrtPriceToTick(TickToSqrtPrice(t)) == t  and  sp(t) <= sp(t+1) (strict on the
//   swap-reachable range), sqrt prices within the supported bounds.
// These depend on the +-1 accuracy of the decade candidate (numerical error analysis of a
// rounded square), which the contracts do not decide. quick: +-2000 ticks around every decade
// boundary and the regime switch; thorough: every tick of [MinInitializedTick, MaxTick].

import (
	"fmt"
	"os"
	"sync"
	"sync/atomic"
	"testing"

	"github.com/osmosis-labs/osmosis/osmomath"
	"github.com/osmosis-labs/osmosis/v31/x/concentrated-liquidity/types"
)

func zzCheckRange(lo, hi int64, roundTrip bool, fails *int64, firstFail *sync.Map) int64 {
	var n int64
	var prev osmomath.BigDec
	havePrev := false
	for t := lo; t <= hi; t++ {
		sp, err := TickToSqrtPrice(t)
		n++
		if err != nil {
			atomic.AddInt64(fails, 1)
			firstFail.LoadOrStore("tick-to-sqrt-price-error", fmt.Sprintf("tick=%d err=%v", t, err))
			havePrev = false
			continue
		}
		if havePrev {
			if sp.LT(prev) {
				atomic.AddInt64(fails, 1)
				firstFail.LoadOrStore("sqrt-price-decreasing", fmt.Sprintf("tick=%d sp=%s prev=%s", t, sp, prev))
			}
			if t > types.MinInitializedTick && !sp.GT(prev) {
				atomic.AddInt64(fails, 1)
				firstFail.LoadOrStore("sqrt-price-not-strict-on-swap-range", fmt.Sprintf("tick=%d sp=%s prev=%s", t, sp, prev))
			}
		}
		if t >= types.MinInitializedTick && (sp.GT(types.MaxSqrtPriceBigDec) || sp.LT(types.MinSqrtPriceBigDec)) {
			atomic.AddInt64(fails, 1)
			firstFail.LoadOrStore("sqrt-price-out-of-bounds", fmt.Sprintf("tick=%d sp=%s", t, sp))
		}
		if roundTrip && t >= types.MinInitializedTick && t < types.MaxTick {
			back, err := CalculateSqrtPriceToTick(sp)
			if err != nil || back != t {
				atomic.AddInt64(fails, 1)
				firstFail.LoadOrStore("round-trip", fmt.Sprintf("tick=%d back=%d err=%v", t, back, err))
			}
		}
		prev, havePrev = sp, true
	}
	return n
}

func TestZZStandinTicks(t *testing.T) {
	var fails int64
	var first sync.Map
	var total int64
	type rng struct{ lo, hi int64 }
	var ranges []rng
	rule := ""
	if os.Getenv("VERIF_TIER") == "thorough" {
		// whole swap-reachable range, sharded
		const shard = 2_000_000
		for lo := types.MinInitializedTick; lo <= types.MaxTick; lo += shard {
			hi := lo + shard // overlap by one tick so that monotonicity is checked across shards
			if hi > types.MaxTick {
				hi = types.MaxTick
			}
			ranges = append(ranges, rng{lo, hi})
		}
		// extended low range: boundaries only
		for b := types.MinInitializedTickV2; b < types.MinInitializedTick; b += 9_000_000 {
			ranges = append(ranges, rng{max64(b-2000, types.MinInitializedTickV2), b + 2000})
		}
		rule = "every tick of [MinInitializedTick, MaxTick] (exhaustive) plus +-2000 ticks around each decade boundary of the extended low range"
	} else {
		for b := types.MinInitializedTickV2; b <= types.MaxTick; b += 9_000_000 {
			ranges = append(ranges, rng{max64(b-2000, types.MinInitializedTickV2), min64(b+2000, types.MaxTick)})
		}
		ranges = append(ranges, rng{types.MinInitializedTick - 2000, types.MinInitializedTick + 2000})
		rule = "+-2000 ticks around every multiple of 9*10^6 in [MinInitializedTickV2, MaxTick] and around MinInitializedTick"
	}
	var wg sync.WaitGroup
	sem := make(chan struct{}, 16)
	for _, r := range ranges {
		wg.Add(1)
		sem <- struct{}{}
		go func(r rng) {
			defer wg.Done()
			defer func() { <-sem }()
			atomic.AddInt64(&total, zzCheckRange(r.lo, r.hi, true, &fails, &first))
		}(r)
	}
	wg.Wait()
	first.Range(func(k, v any) bool {
		fmt.Printf("FAIL %s %s\n", k, v)
		return true
	})
	fmt.Printf("STANDIN evaluations=%d distinct=%d failures=%d rule=%s; per tick: TickToSqrtPrice succeeds, sqrt price non-decreasing (strictly increasing above MinInitializedTick) and within [MinSqrtPrice, MaxSqrtPrice], CalculateSqrtPriceToTick(TickToSqrtPrice(t)) == t\n", total, total, fails, rule)
}

func max64(a, b int64) int64 {
	if a > b {
		return a
	}
	return b
}
func min64(a, b int64) int64 {
	if a < b {
		return a
	}
	return b
}
